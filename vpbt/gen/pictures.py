"""Picture content strategies: always Python ints in [0, 2^depth-1] (DESIGN 2.5)."""

import random

from hypothesis import strategies as st

from vpbt.gen.configs import depths, dims

KINDS = ["noise", "noise", "const0", "constmax", "constmid", "const", "checker", "ramp", "impulse", "edges"]


def make_plane(kind, w, h, depth, seed):
    mx = (1 << depth) - 1
    rnd = random.Random(seed)
    if kind == "noise":
        return [[rnd.getrandbits(depth) for _ in range(w)] for _ in range(h)]
    if kind == "const0":
        return [[0] * w for _ in range(h)]
    if kind == "constmax":
        return [[mx] * w for _ in range(h)]
    if kind == "constmid":
        return [[1 << (depth - 1)] * w for _ in range(h)]
    if kind == "const":
        v = rnd.randint(0, mx)
        return [[v] * w for _ in range(h)]
    if kind == "checker":
        return [[mx if (x + y) % 2 else 0 for x in range(w)] for y in range(h)]
    if kind == "ramp":
        return [[(x * mx) // max(1, w - 1) if w > 1 else mx for x in range(w)] for y in range(h)]
    if kind == "impulse":
        p = [[0] * w for _ in range(h)]
        p[rnd.randrange(h)][rnd.randrange(w)] = mx
        return p
    if isinstance(kind, str) and kind.startswith("ones:"):
        # first n samples (raster order) one above mid-grey, the rest mid-grey: with no transform each of them
        # costs exactly 4 bits, so coded slice lengths can be placed exactly on a boundary
        n = int(kind.split(":")[1])
        mid = 1 << (depth - 1)
        flat = [mid + 1 if i < n else mid for i in range(w * h)]
        return [flat[y * w:(y + 1) * w] for y in range(h)]
    if kind == "edges":
        # extremes in random blocks
        return [[mx if rnd.random() < 0.5 else 0 for x in range(w)] for y in range(h)]
    raise ValueError(kind)


@st.composite
def picture_specs(draw, n_min=1, n_max=3, even=False):
    """A list of per-picture specs [(kindY, kindC1, kindC2, seed), ...]; content is built lazily."""
    n = draw(st.integers(n_min, n_max))
    if even and n % 2:
        n += 1
    return [
        (draw(st.sampled_from(KINDS)), draw(st.sampled_from(KINDS)), draw(st.sampled_from(KINDS)),
         draw(st.integers(0, 2 ** 32 - 1)))
        for _ in range(n)
    ]


def build_pictures(cf, specs, pic_nums=None):
    """Realise specs for a configuration. pic_nums: list of ints or None (omit pic_num)."""
    vp = cf["video_parameters"]
    lw, lh, cw, ch = dims(vp, cf["picture_coding_mode"])
    dl, dc = depths(vp)
    out = []
    for i, (ky, k1, k2, seed) in enumerate(specs):
        p = {
            "Y": make_plane(ky, lw, lh, dl, seed),
            "C1": make_plane(k1, cw, ch, dc, seed + 1),
            "C2": make_plane(k2, cw, ch, dc, seed + 2),
        }
        if pic_nums is not None:
            p["pic_num"] = pic_nums[i]
        out.append(p)
    return out


@st.composite
def picture_numbers(draw, n, fields):
    """None (omitted -> autofill) or n consecutive numbers (mod 2^32); even start when fields."""
    kind = draw(st.sampled_from(["omit", "zero", "start", "wrap"]))
    if kind == "omit":
        return None
    if kind == "zero":
        start = 0
    elif kind == "start":
        start = draw(st.integers(0, 2 ** 32 - 1))
    else:
        start = 2 ** 32 - draw(st.integers(1, max(1, n)))
    if fields and start % 2:
        start -= 1
    return [(start + i) % (2 ** 32) for i in range(n)]
