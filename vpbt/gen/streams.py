"""Encoding / validating helpers and the size guard (DESIGN 2.5)."""

import contextlib
from io import BytesIO

from vc2_conformance import bitstream as B
from vc2_conformance import decoder as D
from vc2_conformance.pseudocode.state import State


class OutOfScope(Exception):
    """Raised by the size guard: the stream declares sizes above the harness bounds."""


GUARD_BOUNDS = dict(
    frame_width=64, frame_height=64, dwt_depth=4, dwt_depth_ho=4, slices_x=16, slices_y=16,
    luma_excursion=1 << 64, color_diff_excursion=1 << 64, slice_bytes_numerator=4096,
    slice_prefix_bytes=64, slice_size_scaler=64,
)
MAX_LUMA = 64


def short(value):
    """repr() that never converts a huge int to decimal (Python >= 3.11 refuses beyond 4300 digits)"""
    if isinstance(value, int) and not isinstance(value, bool) and abs(value) >= (1 << 64):
        return "%s~2^%d" % ("-" if value < 0 else "", value.bit_length())
    return repr(value)


VGUARD_TRIPPED = [None]  # set when the validator guard fires (the CLI swallows the exception)


def _guarded(orig):
    def assert_level_constraint(state, key, value):
        b = GUARD_BOUNDS.get(key)
        if b is not None and isinstance(value, int) and value > b:
            VGUARD_TRIPPED[0] = "%s=%s" % (key, short(value))
            raise OutOfScope("%s=%s" % (key, short(value)))
        if key == "wavelet_index":
            # first picture-level constraint: picture dimensions known (covers base-format sizes)
            if state.get("luma_width", 0) > MAX_LUMA or state.get("luma_height", 0) > MAX_LUMA:
                VGUARD_TRIPPED[0] = "luma size"
                raise OutOfScope("luma %sx%s" % (state.get("luma_width"), state.get("luma_height")))
            if state.get("luma_depth", 0) > 65 or state.get("color_diff_depth", 0) > 65:
                VGUARD_TRIPPED[0] = "depth"
                raise OutOfScope("depth")
        return orig(state, key, value)

    return assert_level_constraint


@contextlib.contextmanager
def size_guard():
    """Rebind assert_level_constraint in the decoder modules with the guarded wrapper."""
    import importlib

    # NB: "import a.b.c as x" would pick up same-named *functions* re-exported by the package
    ps = importlib.import_module("vc2_conformance.decoder.picture_syntax")
    sh = importlib.import_module("vc2_conformance.decoder.sequence_header")
    td = importlib.import_module("vc2_conformance.decoder.transform_data_syntax")

    mods = [ps, sh, td]
    saved = [m.assert_level_constraint for m in mods]
    try:
        for m in mods:
            m.assert_level_constraint = _guarded(m.assert_level_constraint)
        yield
    finally:
        for m, s in zip(mods, saved):
            m.assert_level_constraint = s


def serialise_stream(stream):
    """autofill_and_serialise_stream -> bytes"""
    f = BytesIO()
    B.autofill_and_serialise_stream(f, stream)
    return f.getvalue()


def encode(cf, pictures, *patterns, **kwargs):
    """make_sequence + autofill serialisation -> (bytes, sequence description)"""
    from vc2_conformance.encoder import make_sequence

    seq = make_sequence(cf, pictures, *patterns, **kwargs)
    data = serialise_stream(B.Stream(sequences=[seq]))
    return data, seq


class Verdict(object):
    __slots__ = ("error", "pictures", "state", "out_of_scope")

    def __init__(self):
        self.error = None
        self.pictures = []
        self.state = None
        self.out_of_scope = None

    @property
    def accepted(self):
        return self.error is None and self.out_of_scope is None


def validate(data, guard=False, copy_pictures=True):
    """Run the validator (init_io + parse_stream).

    Returns Verdict: .error is the ConformanceError (or None); any other exception propagates.
    .pictures = [(picture dict, video_parameters, picture_coding_mode), ...] in output order.
    """
    v = Verdict()

    def cb(picture, video_parameters, picture_coding_mode):
        v.pictures.append((picture, dict(video_parameters), picture_coding_mode))

    state = State(_output_picture_callback=cb)
    v.state = state
    f = BytesIO(data)
    try:
        if guard:
            with size_guard():
                D.init_io(state, f)
                D.parse_stream(state)
        else:
            D.init_io(state, f)
            D.parse_stream(state)
    except D.ConformanceError as e:
        v.error = e
    except OutOfScope as e:
        v.out_of_scope = e
    return v


def check_error_reporting(e, tell=None):
    """C02/C25: every conformance error can be explained, located and hinted. Returns message or None."""
    from textwrap import dedent

    from vc2_conformance.string_utils import wrap_paragraphs

    s = e.explain()
    if not isinstance(s, str):
        return "explain() returned %r" % type(s)
    str(e)
    wrap_paragraphs(s)
    off = e.offending_offset()
    if off is not None and not (isinstance(off, int) and off >= 0):
        return "offending_offset() returned %r" % (off,)
    hint = dedent(e.bitstream_viewer_hint()).format(cmd="vc2-bitstream-viewer", file="f.vc2",
                                                   offset=off if off is not None else 0)
    if not isinstance(hint, str):
        return "hint not str"
    return None


def iter_slices(sequence):
    """Yield (data_unit_index, kind 'ld'|'hq', slice dict) for every slice in a sequence description."""
    for i, du in enumerate(sequence["data_units"]):
        td = None
        if "picture_parse" in du:
            td = du["picture_parse"].get("wavelet_transform", {}).get("transform_data")
        elif "fragment_parse" in du:
            td = du["fragment_parse"].get("fragment_data")
        if not td:
            continue
        for s in td.get("ld_slices", []):
            yield i, "ld", s
        for s in td.get("hq_slices", []):
            yield i, "hq", s


DESER_BOUNDS = dict(luma_width=64, luma_height=64, color_diff_width=64, color_diff_height=64, dwt_depth=4,
                    dwt_depth_ho=4, slices_x=16, slices_y=16, slice_prefix_bytes=64, slice_size_scaler=64,
                    slice_bytes_numerator=4096, luma_depth=65, color_diff_depth=65)


GUARD_TRIPPED = [None]  # set when the deserialiser guard fires (the viewer swallows the exception)


def _deser_guarded(orig):
    def guarded(serdes, state, *args, **kwargs):
        for k, b in DESER_BOUNDS.items():
            v = state.get(k, 0)
            if isinstance(v, int) and v > b:
                GUARD_TRIPPED[0] = "%s=%s" % (k, short(v))
                raise OutOfScope("%s=%s" % (k, short(v)))
        return orig(serdes, state, *args, **kwargs)

    return guarded


@contextlib.contextmanager
def deser_guard():
    """Size guard for the bitstream (de)serialiser / viewer: every declared size field is bounded
    separately when slice data is about to be processed (DESIGN 2.5)."""
    import importlib

    V = importlib.import_module("vc2_conformance.bitstream.vc2")

    # quant_matrix loops over dwt_depth(+ho) levels (and, when serialising with default values, never
    # runs out of values), so it is guarded as well
    saved = (V.transform_data, V.fragment_data, V.quant_matrix)
    try:
        V.transform_data = _deser_guarded(V.transform_data)
        V.fragment_data = _deser_guarded(V.fragment_data)
        V.quant_matrix = _deser_guarded(V.quant_matrix)
        yield
    finally:
        V.transform_data, V.fragment_data, V.quant_matrix = saved
