"""Conformant stream variants: slice coefficient payloads replaced by drawn values and re-packed
into valid slices (length fields recomputed), padding bits, extreme/dangling values (DESIGN C08/C09)."""

import random

from bitarray import bitarray
from hypothesis import strategies as st

from vc2_data_tables import Profiles

from vpbt.gen import streams as S
from vpbt.oracles import sizes as Z

MODES = ["keep", "small", "small", "sparse", "extreme", "huge", "dangling"]


def draw_values(rnd, n, mode, depth_bits):
    if mode == "small":
        return [rnd.randint(-7, 7) for _ in range(n)]
    if mode == "sparse":
        return [rnd.choice([0, 0, 0, 0, 1, -1, rnd.randint(-300, 300)]) for _ in range(n)]
    if mode == "extreme":
        # values on and next to the clipping boundaries of the component (+-2^(depth-1)), and far beyond them
        m = 1 << max(depth_bits - 1, 0)
        pool = [0, m, -m, m - 1, -(m - 1), m + 1, -(m + 1), 1, -1, 2 * m, -2 * m]
        if rnd.random() < 0.5:
            pool = [0, m, -m, m - 1, -(m - 1), 1, -1]  # nothing further out than one step past the legal range
        return [rnd.choice(pool) for _ in range(n)]
    if mode == "huge":
        return [rnd.choice([0, 0, 1, -1]) if rnd.random() < 0.8 else rnd.choice([1, -1]) * (1 << rnd.randint(8, 40)) for _ in range(n)]
    return [rnd.randint(-3, 3) for _ in range(n)]


def repack_sequence(seq, cf, seed, mode, qmode):
    """Mutates the sequence description in place. Returns a dict of facts."""
    rnd = random.Random(seed)
    ld = cf["profile"] == Profiles.low_delay
    facts = {"repacked": 0, "dangling": 0, "padding_bits": 0}
    from vpbt.gen.configs import depths as _depths

    depth_y, depth_c = _depths(cf["video_parameters"])
    sx_n, sy_n = cf["slices_x"], cf["slices_y"]
    scaler = None
    slice_no = {}
    tp_cur = None
    for du in seq["data_units"]:
        if "picture_parse" in du:
            tp_cur = du["picture_parse"]["wavelet_transform"]["transform_parameters"]
            td = du["picture_parse"]["wavelet_transform"]["transform_data"]
            base = 0
        elif "fragment_parse" in du:
            fp = du["fragment_parse"]
            if fp["fragment_header"]["fragment_slice_count"] == 0:
                tp_cur = fp["transform_parameters"]
                continue
            td = fp["fragment_data"]
            base = fp["fragment_header"]["fragment_y_offset"] * sx_n + fp["fragment_header"]["fragment_x_offset"]
        else:
            continue
        sp = tp_cur["slice_parameters"]
        slices = td.get("ld_slices") if ld else td.get("hq_slices")
        for k, s in enumerate(slices):
            m = mode if mode != "mixed" else rnd.choice(MODES)
            if m == "keep":
                continue
            facts["repacked"] += 1
            if ld:
                n = base + k
                sb = Z.slice_bytes(sx_n, sy_n, sp["slice_bytes_numerator"], sp["slice_bytes_denominator"], n % sx_n, n // sx_n)
                budget = Z.ld_budget_bits(sb)
                y = draw_values(rnd, len(s["y_transform"]), m, depth_y)
                c = draw_values(rnd, len(s["c_transform"]), m, depth_c)
                # shrink until it fits: zero coefficients from the end (chroma first, then luma)
                while Z.block_bits(y) + Z.block_bits(c) > budget:
                    tgt = c if Z.block_bits(c) > 0 and (rnd.random() < 0.6 or Z.block_bits(y) == 0) else y
                    i = len(tgt) - 1
                    while i >= 0 and tgt[i] == 0:
                        i -= 1
                    if abs(tgt[i]) > 3 and rnd.random() < 0.5:
                        tgt[i] = tgt[i] // 4
                    else:
                        tgt[i] = 0
                # slice_y_length must fit its intlog2(8*slice_bytes-7)-bit field
                maxlen = (1 << Z.intlog2(8 * sb - 7)) - 1
                while Z.block_bits(y) > maxlen:
                    i = len(y) - 1
                    while i >= 0 and y[i] == 0:
                        i -= 1
                    y[i] = 0
                ybits = Z.block_bits(y)
                slack = min(budget - ybits - Z.block_bits(c), maxlen - ybits)
                ylen = ybits + (rnd.randint(0, slack) if slack > 0 and rnd.random() < 0.5 else 0)
                if m == "dangling" and ybits >= 2:
                    i = len(y) - 1
                    while i >= 0 and y[i] == 0:
                        i -= 1
                    if y[i] > 0:
                        y[i] = -y[i]
                    cut = rnd.choice([1, 2])
                    ylen = ybits - cut
                    facts["dangling"] += 1
                s["y_transform"], s["c_transform"] = y, c
                s["slice_y_length"] = ylen
                s.pop("y_block_padding", None)
                s.pop("c_block_padding", None)
                # bits left in the luma block once *every* coefficient (trailing zeros are one bit each) is written
                yspare = ylen - sum(Z.sint_bits(v) for v in y)
                if yspare > 0 and rnd.random() < 0.5:
                    s["y_block_padding"] = bitarray([rnd.getrandbits(1) for _ in range(rnd.randint(1, yspare))])
                    facts["padding_bits"] += 1
                if qmode == "random":
                    s["qindex"] = rnd.choice([0, 1, 7, 20, 63, 127, rnd.randint(0, 127)])
            else:
                scaler = sp["slice_size_scaler"]
                unit = 8 * scaler
                for comp in ("y", "c1", "c2"):
                    vals = draw_values(rnd, len(s[comp + "_transform"]), m, depth_y if comp == "y" else depth_c)
                    while -(-Z.block_bits(vals) // unit) > 255:
                        vals = [(v // 4) if v >= 0 else -((-v) // 4) for v in vals]  # towards zero (floor would stick at -1)
                    need = -(-Z.block_bits(vals) // unit)
                    length = need + (rnd.randint(0, min(3, 255 - need)) if rnd.random() < 0.3 else 0)
                    s[comp + "_transform"] = vals
                    s["slice_%s_length" % comp] = length
                    s.pop(comp + "_block_padding", None)
                    spare = length * unit - sum(Z.sint_bits(v) for v in vals)
                    if spare > 0 and rnd.random() < 0.4:
                        s[comp + "_block_padding"] = bitarray([rnd.getrandbits(1) for _ in range(rnd.randint(1, spare))])
                        facts["padding_bits"] += 1
                if qmode == "random":
                    s["qindex"] = rnd.choice([0, 1, 7, 20, 63, 127, 128, 255, rnd.randint(0, 255)])
    return facts


@st.composite
def repack_plan(draw):
    return dict(seed=draw(st.integers(0, 2 ** 32 - 1)),
                mode=draw(st.sampled_from(["keep", "mixed", "mixed", "small", "sparse", "extreme", "huge", "dangling"])),
                qmode=draw(st.sampled_from(["keep", "random"])),
                pad_units=draw(st.booleans()))
