"""Codec configuration (CodecFeatures) strategies, built by construction so every draw is valid.

See DESIGN.md 2.5.  ``codec_features(...)`` is a Hypothesis composite strategy.
"""

from hypothesis import strategies as st

from vc2_data_tables import (
    BaseVideoFormats,
    BASE_VIDEO_FORMAT_PARAMETERS,
    ColorDifferenceSamplingFormats,
    Levels,
    PictureCodingModes,
    PresetColorMatrices,
    PresetColorPrimaries,
    PresetTransferFunctions,
    PRESET_FRAME_RATES,
    PRESET_PIXEL_ASPECT_RATIOS,
    PRESET_SIGNAL_RANGES,
    Profiles,
    QUANTISATION_MATRICES,
    SourceSamplingModes,
    WaveletFilters,
)

from vc2_conformance.codec_features import CodecFeatures
from vc2_conformance.pseudocode.video_parameters import VideoParameters, set_source_defaults

WAVELETS = list(WaveletFilters)
C444 = ColorDifferenceSamplingFormats.color_4_4_4
C422 = ColorDifferenceSamplingFormats.color_4_2_2
C420 = ColorDifferenceSamplingFormats.color_4_2_0


def intlog2(n):
    return (n - 1).bit_length()


def custom_matrix_shape(dwt_depth, dwt_depth_ho):
    """{level: [orients]} for the given depths (12.4.5.3)."""
    shape = {}
    shape[0] = ["L"] if dwt_depth_ho > 0 else ["LL"]
    for level in range(1, dwt_depth_ho + 1):
        shape[level] = ["H"]
    for level in range(dwt_depth_ho + 1, dwt_depth_ho + dwt_depth + 1):
        shape[level] = ["HL", "LH", "HH"]
    return shape


def dims(vp, pcm):
    """(luma_w, luma_h, chroma_w, chroma_h) - harness arithmetic (11.6.2)."""
    lw, lh = vp["frame_width"], vp["frame_height"]
    cw, ch = lw, lh
    if vp["color_diff_format_index"] == C422:
        cw //= 2
    elif vp["color_diff_format_index"] == C420:
        cw //= 2
        ch //= 2
    if pcm == PictureCodingModes.pictures_are_fields:
        lh //= 2
        ch //= 2
    return lw, lh, cw, ch


def depths(vp):
    return intlog2(vp["luma_excursion"] + 1), intlog2(vp["color_diff_excursion"] + 1)


@st.composite
def video_parameters(draw, max_size=24, regular=False, max_depth=16, pcm=None, simple=False, min_size=1):
    """A valid VideoParameters + picture coding mode.

    regular=True: frame size is a multiple of the subsampling and (for interlaced sources or
    field coding) of twice the vertical subsampling (needed wherever the repository's picture
    generators supply the pictures).
    """
    if pcm is None:
        pcm = draw(st.sampled_from(list(PictureCodingModes)))
    base = draw(st.sampled_from(list(BaseVideoFormats)))
    vp = set_source_defaults(base)
    cdf = draw(st.sampled_from([C444, C422, C420]))
    vp["color_diff_format_index"] = cdf
    vp["source_sampling"] = draw(st.sampled_from(list(SourceSamplingModes)))
    vp["top_field_first"] = draw(st.booleans())
    xm = 1 if cdf == C444 else 2
    ym = 2 if cdf == C420 else 1
    fields = pcm == PictureCodingModes.pictures_are_fields
    if fields or (regular and vp["source_sampling"] == SourceSamplingModes.interlaced):
        ym *= 2
    w = draw(st.integers(max(1, -(-min_size // xm)), max(1, max_size // xm))) * xm
    h = draw(st.integers(max(1, -(-min_size // ym)), max(1, max_size // ym))) * ym
    vp["frame_width"], vp["frame_height"] = w, h
    # clean area inside the frame
    if draw(st.booleans()):
        vp["clean_width"], vp["clean_height"], vp["left_offset"], vp["top_offset"] = w, h, 0, 0
    else:
        cw = draw(st.integers(1, w))
        ch = draw(st.integers(1, h))
        vp["clean_width"], vp["clean_height"] = cw, ch
        vp["left_offset"] = draw(st.integers(0, w - cw))
        vp["top_offset"] = draw(st.integers(0, h - ch))
    if not simple:
        # frame rate
        if draw(st.booleans()):
            fr = draw(st.sampled_from(list(PRESET_FRAME_RATES.values())))
            vp["frame_rate_numer"], vp["frame_rate_denom"] = fr.numerator, fr.denominator
        else:
            vp["frame_rate_numer"] = draw(st.integers(1, 120000))
            vp["frame_rate_denom"] = draw(st.integers(1, 1001))
        # pixel aspect ratio (kept within [1/4, 4]: see DESIGN 7.10)
        if draw(st.booleans()):
            par = draw(st.sampled_from(list(PRESET_PIXEL_ASPECT_RATIOS.values())))
            vp["pixel_aspect_ratio_numer"], vp["pixel_aspect_ratio_denom"] = par.numerator, par.denominator
        else:
            d = draw(st.integers(1, 40))
            n = draw(st.integers(max(1, (d + 3) // 4), 4 * d))
            vp["pixel_aspect_ratio_numer"], vp["pixel_aspect_ratio_denom"] = n, d
        vp["color_primaries_index"] = draw(st.sampled_from(list(PresetColorPrimaries)))
        vp["color_matrix_index"] = draw(st.sampled_from(list(PresetColorMatrices)))
        vp["transfer_function_index"] = draw(st.sampled_from(list(PresetTransferFunctions)))
    # signal range
    kind = draw(st.sampled_from(["preset", "preset", "custom_pow2", "custom"]))
    if kind == "preset":
        sr = draw(st.sampled_from([r for r in PRESET_SIGNAL_RANGES.values()
                                   if intlog2(max(r.luma_excursion, r.color_diff_excursion) + 1) <= max_depth]))
        vp["luma_offset"], vp["luma_excursion"] = sr.luma_offset, sr.luma_excursion
        vp["color_diff_offset"], vp["color_diff_excursion"] = sr.color_diff_offset, sr.color_diff_excursion
    else:
        for comp in ("luma", "color_diff"):
            depth = draw(st.integers(1, max_depth))
            if kind == "custom_pow2":
                exc = (1 << depth) - 1
            else:
                lo = (1 << (depth - 1)) if depth > 1 else 1
                exc = draw(st.integers(lo, (1 << depth) - 1))
            vp[comp + "_excursion"] = exc
            vp[comp + "_offset"] = draw(st.integers(0, (1 << depth) - 1))
    return vp, pcm


def raw_picture_bytes_estimate(vp, pcm, dwt_depth, dwt_depth_ho):
    lw, lh, cw, ch = dims(vp, pcm)
    dl, dc = depths(vp)
    grow = 2 * (dwt_depth + dwt_depth_ho) + 2
    bits = lw * lh * 2 * (dl + grow) + 2 * cw * ch * 2 * (dc + grow)
    return bits // 8 + 16


@st.composite
def codec_features(draw, max_size=24, max_depth_bits=16, max_dwt=3, max_dwt_ho=2, regular=False,
                   profile=None, lossless=None, simple_vp=False, fragments=True, max_slices=6,
                   big_budget=False, pcm=None, max_matrix=12, min_size=1):
    """A valid CodecFeatures (level unconstrained)."""
    if profile is None:
        profile = draw(st.sampled_from([Profiles.high_quality, Profiles.low_delay]))
    if lossless is None:
        lossless = draw(st.booleans()) if profile == Profiles.high_quality else False
    if lossless:
        profile = Profiles.high_quality
    vp, pcm = draw(video_parameters(max_size=max_size, regular=regular, max_depth=max_depth_bits,
                                    pcm=pcm, simple=simple_vp, min_size=min_size))
    wavelet_index = draw(st.sampled_from(WAVELETS))
    dwt_depth = draw(st.sampled_from([0] + list(range(1, max_dwt + 1)) * 2)) if max_dwt > 0 else 0
    asym = draw(st.sampled_from([False, False, True]))
    if asym:
        dwt_depth_ho = draw(st.integers(0, max_dwt_ho))
        wavelet_index_ho = draw(st.sampled_from(WAVELETS))
    else:
        dwt_depth_ho = 0
        wavelet_index_ho = wavelet_index
    has_default = (wavelet_index, wavelet_index_ho, dwt_depth, dwt_depth_ho) in QUANTISATION_MATRICES
    if has_default and draw(st.sampled_from([True, True, False])):
        qm = None
    else:
        shape = custom_matrix_shape(dwt_depth, dwt_depth_ho)
        flat = draw(st.sampled_from(["zeros", "random", "random"]))
        qm = {}
        for level, orients in shape.items():
            qm[level] = {}
            for o in orients:
                qm[level][o] = 0 if flat == "zeros" else draw(st.integers(0, max_matrix))
    slices_x = draw(st.integers(1, max_slices))
    slices_y = draw(st.integers(1, max_slices))
    nslices = slices_x * slices_y
    if fragments:
        fsc = draw(st.sampled_from([0, 0, 1, "k", "total", "more"]))
        if fsc == "k":
            fsc = draw(st.integers(1, nslices))
        elif fsc == "total":
            fsc = nslices
        elif fsc == "more":
            fsc = nslices + draw(st.integers(1, 5))
    else:
        fsc = 0
    if lossless:
        picture_bytes = None
    else:
        minimum = nslices * (4 if profile == Profiles.high_quality else 1)
        raw = raw_picture_bytes_estimate(vp, pcm, dwt_depth, dwt_depth_ho)
        if big_budget:
            picture_bytes = minimum + 3 * raw + draw(st.integers(0, raw))
        else:
            cls = draw(st.sampled_from(["min", "min+1", "near_min", "mid", "mid", "big"]))
            if cls == "min":
                picture_bytes = minimum
            elif cls == "min+1":
                picture_bytes = minimum + 1
            elif cls == "near_min":
                picture_bytes = minimum + draw(st.integers(0, 2 * nslices + 3))
            elif cls == "mid":
                picture_bytes = minimum + draw(st.integers(0, max(raw // 2, 4)))
            else:
                picture_bytes = minimum + raw + draw(st.integers(0, 2 * raw))
    return CodecFeatures(
        name="gen",
        level=Levels.unconstrained,
        profile=profile,
        picture_coding_mode=pcm,
        video_parameters=vp,
        wavelet_index=wavelet_index,
        wavelet_index_ho=wavelet_index_ho,
        dwt_depth=dwt_depth,
        dwt_depth_ho=dwt_depth_ho,
        slices_x=slices_x,
        slices_y=slices_y,
        fragment_slice_count=fsc,
        lossless=lossless,
        picture_bytes=picture_bytes,
        quantization_matrix=qm,
    )


def labels(cf):
    """Classifier labels for a configuration (DESIGN 2.5)."""
    vp = cf["video_parameters"]
    lw, lh, cw, ch = dims(vp, cf["picture_coding_mode"])
    dl, dc = depths(vp)
    out = []
    out.append("LD" if cf["profile"] == Profiles.low_delay else "HQ")
    if cf["lossless"]:
        out.append("lossless")
    if cf["dwt_depth_ho"] > 0 or cf["wavelet_index"] != cf["wavelet_index_ho"]:
        out.append("asymmetric")
    if cf["dwt_depth_ho"] > 0 and cf["dwt_depth"] == 0:
        out.append("ho_only")
    if cf["dwt_depth"] == 0 and cf["dwt_depth_ho"] == 0:
        out.append("no_transform")
    if vp["color_diff_format_index"] == C420:
        out.append("420")
    elif vp["color_diff_format_index"] == C422:
        out.append("422")
    if cf["picture_coding_mode"] == PictureCodingModes.pictures_are_fields:
        out.append("fields")
    if cf["fragment_slice_count"]:
        out.append("fragments")
    if cf["quantization_matrix"] is not None:
        out.append("custom_matrix")
    if max(dl, dc) > 8:
        out.append("depth>8")
    if dl != dc:
        out.append("depth_mismatch")
    scale = 1 << (cf["dwt_depth"] + cf["dwt_depth_ho"])
    if cf["slices_x"] > max(1, -(-cw // scale)) or cf["slices_y"] > max(1, -(-ch // (1 << cf["dwt_depth"]))):
        out.append("slices>coeffs")
    if lw % cf["slices_x"] or lh % cf["slices_y"]:
        out.append("nondividing_slices")
    return out


def config_key(cf):
    vp = cf["video_parameters"]
    return repr((sorted((k, repr(v)) for k, v in cf.items() if k != "video_parameters"),
                 sorted((k, repr(v)) for k, v in vp.items())))


def config_json(cf):
    from vpbt.core import jsonable

    d = {k: jsonable(v) for k, v in cf.items() if k != "video_parameters"}
    d["video_parameters"] = {k: jsonable(v) for k, v in cf["video_parameters"].items()}
    return d


_ENUMS = None


def config_from_json(d):
    """Inverse of config_json."""
    import vc2_data_tables as T

    def conv(v):
        if isinstance(v, str) and "." in v:
            cls, _, name = v.partition(".")
            if hasattr(T, cls):
                try:
                    return getattr(T, cls)[name]
                except KeyError:
                    return v
        return v

    vp = VideoParameters({k: conv(v) for k, v in d["video_parameters"].items()})
    cf = CodecFeatures({k: conv(v) for k, v in d.items() if k != "video_parameters"})
    cf["video_parameters"] = vp
    qm = cf.get("quantization_matrix")
    if qm is not None:
        cf["quantization_matrix"] = {int(l): dict(o) for l, o in qm.items()}
    return cf
