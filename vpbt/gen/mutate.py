"""Mutation operators over valid streams (DESIGN 2.5): byte level, field level, unit level.

``mutated_streams()`` is a Hypothesis strategy yielding (bytes, meta) where meta records the
operators used.  The replay unit is always the final byte string.
"""

import copy

from bitarray import bitarray
from hypothesis import strategies as st

from vc2_data_tables import ParseCodes

from vpbt.gen import corpus as C

INTERESTING_BYTES = [0x00, 0x01, 0x7F, 0x80, 0xFF, 0x42, 0x10, 0x20, 0x30, 0xE8, 0xEC, 0xC8, 0xCC, 0x0C, 0x08]
PARSE_CODE_VALUES = [int(p) for p in ParseCodes] + [0x11, 0x21, 0xFF, 0x4C]


def leaf_paths(node, prefix=()):
    """All (path) tuples to leaf values in a description (skipping computed '_' entries)."""
    out = []
    if isinstance(node, dict):
        for k, v in node.items():
            if isinstance(k, str) and k.startswith("_"):
                continue
            out.extend(leaf_paths(v, prefix + (k,)))
    elif isinstance(node, list):
        if node and all(isinstance(x, int) and not isinstance(x, bool) for x in node) and len(node) > 6:
            # coefficient list: expose a few positions only
            n = len(node)
            for i in sorted(set([0, 1, n // 2, n - 2, n - 1])):
                out.append(prefix + (i,))
        else:
            for i, v in enumerate(node):
                out.extend(leaf_paths(v, prefix + (i,)))
    else:
        out.append(prefix)
    return out


def get_path(node, path):
    for p in path:
        node = node[p]
    return node


def set_path(node, path, value):
    for p in path[:-1]:
        node = node[p]
    node[path[-1]] = value


_PATHS = {}


def corpus_paths(i):
    if i not in _PATHS:
        _PATHS[i] = leaf_paths(C.descriptions()[i])
    return _PATHS[i]


FIELD_BITS = {
    "parse_code": 8, "next_parse_offset": 32, "previous_parse_offset": 32, "picture_number": 32,
    "fragment_data_length": 16, "fragment_slice_count": 16, "fragment_x_offset": 16, "fragment_y_offset": 16,
    "qindex": 7, "slice_y_length": 8, "slice_c1_length": 8, "slice_c2_length": 8,
}


@st.composite
def new_value(draw, old, key=None):
    """A replacement for a leaf value, kept within the width of fixed-width fields so that the
    mutated description usually remains serialisable."""
    v = draw(_new_value(old, key))
    bits = FIELD_BITS.get(key)
    if bits is not None and isinstance(v, int) and not isinstance(v, bool):
        v = max(0, v) & ((1 << bits) - 1)
    return v


@st.composite
def _new_value(draw, old, key=None):
    if isinstance(old, bool):
        return not old
    if isinstance(old, int):
        old = int(old)
        kind = draw(st.sampled_from(["zero", "one", "inc", "dec", "bit", "max8", "max16", "max32", "small", "any", "pc"]))
        if key == "parse_code" or kind == "pc":
            if key == "parse_code":
                return draw(st.sampled_from(PARSE_CODE_VALUES))
            kind = "small"
        if kind == "zero":
            return 0
        if kind == "one":
            return 1
        if kind == "inc":
            return old + 1
        if kind == "dec":
            return max(0, old - 1) if key not in ("y_transform", "c_transform", "c1_transform", "c2_transform") else old - 1
        if kind == "bit":
            return old ^ (1 << draw(st.integers(0, 12)))
        if kind == "max8":
            return 255
        if kind == "max16":
            return 65535
        if kind == "max32":
            return (1 << 32) - 1
        if kind == "small":
            return draw(st.integers(0, 20))
        return draw(st.integers(0, 1 << 20))
    if isinstance(old, bytes):
        kind = draw(st.sampled_from(["empty", "flip", "shorter", "longer", "ff", "runs", "runs"]))
        if kind == "empty":
            return b""
        if kind == "runs":
            # long runs of one value, starting / ending in the middle of a byte or broken by a single bit (whatever
            # displays or compares byte strings tends to treat runs specially)
            k = len(old) - 1 if (len(old) >= 9 and draw(st.booleans())) else draw(st.integers(8, 40))
            a = draw(st.integers(0, k))
            return draw(st.sampled_from([b"\xf0" + b"\x00" * k, b"\x00" * k + b"\x0f", b"\xff" * k + b"\xfe", b"\x0f" + b"\xff" * k,
                                         b"\x00" * (k + 1), b"\xff" * (k + 1), b"\xa5" + b"\x55" * k,
                                         b"\x00" * a + bytes([1 << draw(st.integers(0, 7))]) + b"\x00" * (k - a)]))
        if kind == "flip" and old:
            i = draw(st.integers(0, len(old) - 1))
            return old[:i] + bytes([old[i] ^ (1 << draw(st.integers(0, 7)))]) + old[i + 1:]
        if kind == "shorter":
            return old[: len(old) // 2]
        if kind == "longer":
            return old + b"\x00\xff" * draw(st.integers(1, 6))
        return b"\xff" * len(old)
    if isinstance(old, bitarray):
        kind = draw(st.sampled_from(["zeros", "ones", "flip", "longer", "shorter"]))
        n = len(old)
        if kind == "zeros":
            return bitarray("0" * n)
        if kind == "ones":
            return bitarray("1" * n)
        if kind == "flip" and n:
            b = bitarray(old)
            i = draw(st.integers(0, n - 1))
            b[i] = not b[i]
            return b
        if kind == "longer":
            return bitarray(old) + bitarray("10" * draw(st.integers(1, 4)))
        return bitarray(old)[: n // 2]
    return old


@st.composite
def field_mutation(draw, desc, paths):
    """Mutate 1-3 leaves of desc (a deep copy is made). Returns (desc, [(path, old, new)])."""
    d = copy.deepcopy(desc)
    changed = []
    n = draw(st.integers(1, 3))
    # bias towards structurally interesting fields
    hot = [p for p in paths if p[-1] in (
        "parse_code", "next_parse_offset", "previous_parse_offset", "picture_number", "fragment_slice_count",
        "fragment_x_offset", "fragment_y_offset", "fragment_data_length", "slice_y_length", "slice_c1_length",
        "slice_c2_length", "qindex", "major_version", "minor_version", "profile", "level", "base_video_format",
        "slices_x", "slices_y", "slice_bytes_numerator", "slice_bytes_denominator", "slice_prefix_bytes",
        "slice_size_scaler", "dwt_depth", "dwt_depth_ho", "wavelet_index", "wavelet_index_ho", "picture_coding_mode",
        "custom_quant_matrix", "asym_transform_flag", "asym_transform_index_flag", "frame_width", "frame_height",
        "index", "luma_excursion", "color_diff_excursion", "frame_rate_denom", "pixel_aspect_ratio_denom", "bytes",
        "prefix_bytes")]
    for _ in range(n):
        pool = hot if (hot and draw(st.integers(0, 3)) != 0) else paths
        path = pool[draw(st.integers(0, len(pool) - 1))]
        try:
            old = get_path(d, path)
        except (KeyError, IndexError, TypeError):
            continue
        key = path[-1] if isinstance(path[-1], str) else (path[-2] if len(path) > 1 else None)
        new = draw(new_value(old, key))
        set_path(d, path, new)
        changed.append((path, old, new))
    return d, changed


@st.composite
def unit_mutation(draw, desc):
    """Drop / duplicate / swap / move whole data units (offsets left as they were)."""
    d = copy.deepcopy(desc)
    seqs = d["sequences"]
    # data units move: the byte-alignment padding recorded in front of each parse_info no longer fits, let the
    # serialiser's defaults recompute it
    for sq in seqs:
        for u in sq["data_units"]:
            u.get("parse_info", {}).pop("padding", None)
    si = draw(st.integers(0, len(seqs) - 1))
    units = seqs[si]["data_units"]
    kind = draw(st.sampled_from(["drop", "dup", "swap", "move", "split_seq", "orphan_fragments", "orphan_fragments"]))
    if not units:
        return d, kind
    if kind == "orphan_fragments":
        # remove the zero-slice first fragment of a fragmented picture and give its slice-carrying fragments the
        # number of whatever picture came before (or keep theirs): slices arrive with no fragmented picture started
        firsts = [k for k, u in enumerate(units) if "fragment_parse" in u
                  and u["fragment_parse"].get("fragment_header", {}).get("fragment_slice_count") == 0]
        if firsts:
            k = firsts[draw(st.integers(0, len(firsts) - 1))]
            prev_num = None
            for u in units[:k]:
                if "picture_parse" in u:
                    prev_num = u["picture_parse"]["picture_header"].get("picture_number")
                elif "fragment_parse" in u:
                    prev_num = u["fragment_parse"]["fragment_header"].get("picture_number")
            del units[k]
            if prev_num is not None and draw(st.booleans()):
                j = k
                while j < len(units) and "fragment_parse" in units[j] and \
                        units[j]["fragment_parse"]["fragment_header"].get("fragment_slice_count"):
                    units[j]["fragment_parse"]["fragment_header"]["picture_number"] = prev_num
                    j += 1
        return d, kind
    i = draw(st.integers(0, len(units) - 1))
    j = draw(st.integers(0, len(units) - 1))
    if kind == "drop":
        del units[i]
    elif kind == "dup":
        units.insert(j, copy.deepcopy(units[i]))
    elif kind == "swap":
        units[i], units[j] = units[j], units[i]
    elif kind == "move":
        u = units.pop(i)
        units.insert(min(j, len(units)), u)
    else:
        seqs.insert(si + 1, type(seqs[si])(data_units=units[i:]))
        del units[i:]
    return d, kind


def byte_mutation_ops():
    return st.sampled_from(["bitflip", "setbyte", "insert", "delete", "truncate", "splice", "dupchunk", "setword"])


@st.composite
def byte_mutate(draw, data):
    data = bytearray(data)
    kinds = []
    for _ in range(draw(st.integers(1, 4))):
        kind = draw(byte_mutation_ops())
        kinds.append(kind)
        n = len(data)
        if n == 0:
            data += bytes([draw(st.integers(0, 255))])
            continue
        pos = draw(st.integers(0, n - 1))
        if kind == "bitflip":
            data[pos] ^= 1 << draw(st.integers(0, 7))
        elif kind == "setbyte":
            data[pos] = draw(st.sampled_from(INTERESTING_BYTES))
        elif kind == "setword":
            w = draw(st.sampled_from([0, 1, 12, 13, 14, 0xFFFFFFFF, 0x42424344, 0x80000000]))
            data[pos:pos + 4] = w.to_bytes(4, "big")
        elif kind == "insert":
            k = draw(st.integers(1, 8))
            data[pos:pos] = bytes(draw(st.sampled_from(INTERESTING_BYTES)) for _ in range(k))
        elif kind == "delete":
            k = draw(st.integers(1, 16))
            del data[pos:pos + k]
        elif kind == "truncate":
            del data[pos:]
        elif kind == "dupchunk":
            k = draw(st.integers(1, 40))
            data[pos:pos] = data[pos:pos + k]
        elif kind == "splice":
            other = C.corpus()[draw(st.integers(0, len(C.corpus()) - 1))]["data"]
            opos = draw(st.integers(0, len(other) - 1))
            data = bytearray(bytes(data[:pos]) + other[opos:])
    return bytes(data), kinds


@st.composite
def mutated_streams(draw, allow_valid=True):
    """(bytes, meta) – meta: {'base': name, 'mode': ..., 'ops': [...]}"""
    corp = C.corpus()
    mode = draw(st.sampled_from(["payload", "ld_resize", "bytes", "bytes", "field", "field", "bitfield", "bitfield", "bitfield", "unit", "field+bytes",
                                 "random", "prefix+random"]
                                + (["valid"] if allow_valid else [])))
    if mode == "random":
        return draw(st.binary(min_size=0, max_size=80)), {"base": None, "mode": mode, "ops": []}
    if mode == "prefix+random":
        pc = draw(st.sampled_from(PARSE_CODE_VALUES))
        npo = draw(st.sampled_from([0, 13, 14, 20, 40, 1 << 20]))
        body = draw(st.binary(min_size=0, max_size=60))
        return (b"BBCD" + bytes([pc]) + npo.to_bytes(4, "big") + b"\x00\x00\x00\x00" + body,
                {"base": None, "mode": mode, "ops": [pc, npo]})
    frag = [k for k, e in enumerate(corp) if "frag" in e["name"]]
    if mode == "unit" and frag and draw(st.booleans()):
        # unit-level mutations matter most where units depend on each other: streams with fragmented pictures
        i = frag[draw(st.integers(0, len(frag) - 1))]
    else:
        i = draw(st.integers(0, len(corp) - 1))
    entry = corp[i]
    meta = {"base": entry["name"], "mode": mode, "ops": []}
    if mode == "valid":
        return entry["data"], meta
    if mode == "bitfield":
        data, ops = draw(bitfield_mutate(i))
        meta["ops"] = ops
        return data, meta
    if mode == "ld_resize":
        ld = [k for k, e in enumerate(corp) if e["name"] in LD_WHOLE_PICTURES]
        i = ld[draw(st.integers(0, len(ld) - 1))]
        meta["base"] = corp[i]["name"]
        data, ops = draw(ld_resize(i))
        meta["ops"] = ops
        return data, meta
    data = entry["data"]
    if mode == "payload":
        # an otherwise conformant stream with an extra padding / auxiliary data unit carrying a drawn payload (long runs,
        # runs broken in the middle of a byte, random bytes, parse-info look-alikes); offsets are recomputed
        from vc2_conformance import bitstream as B
        from vc2_conformance.bitstream.vc2_autofill import AUTO
        from vpbt.gen import streams as S

        d = copy.deepcopy(C.descriptions()[i])
        for sq in d["sequences"]:
            for u in sq["data_units"]:
                pi = u.get("parse_info")
                if pi is not None:
                    pi["next_parse_offset"] = AUTO
                    pi["previous_parse_offset"] = AUTO
                    pi.pop("padding", None)
        short = None
        for _ in range(draw(st.integers(1, 2))):
            sq = d["sequences"][draw(st.integers(0, len(d["sequences"]) - 1))]
            units = sq["data_units"]
            j = draw(st.integers(1, max(1, len(units) - 1)))
            if draw(st.booleans()):
                payload = draw(_new_value(b"\x00" * draw(st.integers(0, 24)), "bytes"))
            else:
                payload = draw(st.one_of(st.binary(max_size=48), st.sampled_from([b"BBCD", b"BBCD\x10" + b"\x00" * 8, b"\x00" * 64])))
            if draw(st.booleans()):
                pc = draw(st.sampled_from([0x20, 0x20, 0x20, 0x21, 0x27]))
                # (autofill knows the length rule for code 0x20 only: the other auxiliary codes get an explicit offset)
                pi = B.ParseInfo(parse_code=pc) if pc == 0x20 else B.ParseInfo(parse_code=pc, next_parse_offset=13 + len(payload))
                unit = B.DataUnit(parse_info=pi, auxiliary_data=B.AuxiliaryData(bytes=payload))
            else:
                unit = B.DataUnit(parse_info=B.ParseInfo(parse_code=0x30), padding=B.Padding(bytes=payload))
            if short is None and draw(st.integers(0, 3)) == 0:
                # declared length shorter than the 13-byte parse_info itself: serialised with an empty payload and the
                # consistent offset 13, which is patched in the bytes afterwards (the serialiser is not asked to write
                # what it may refuse)
                short = draw(st.integers(0, 12))
                unit["parse_info"]["next_parse_offset"] = 13
                (unit.get("padding") or unit.get("auxiliary_data"))["bytes"] = b""
                meta["ops"].append("short_offset:%d" % short)
            units.insert(j, unit)
            meta["ops"].append("%s:%d bytes" % ("aux" if "auxiliary_data" in unit else "padding", len(payload)))
        try:
            with S.deser_guard():
                data = S.serialise_stream(d)
            if short is not None:
                k = 0
                while True:
                    k = data.find(b"BBCD", k)
                    if k < 0:
                        break
                    if data[k + 4] in (0x20, 0x21, 0x27, 0x30) and data[k + 5:k + 9] == (13).to_bytes(4, "big"):
                        data = data[:k + 5] + short.to_bytes(4, "big") + data[k + 9:]
                        break
                    k += 1
            return data, meta
        except Exception as e:
            meta["discarded"] = "%s:%s" % (meta["mode"], type(e).__name__)
            meta["mode"] = "bytes(fallback)"
            data, kinds = draw(byte_mutate(entry["data"]))
            meta["ops"] = kinds
            return data, meta
    if mode in ("field", "field+bytes", "unit"):
        desc = C.descriptions()[i]
        if mode == "unit":
            d, kind = draw(unit_mutation(desc))
            meta["ops"].append(kind)
            if draw(st.booleans()):
                d, changed = draw(field_mutation(d, leaf_paths(d)))
                meta["ops"] += [repr(c[0][-1]) for c in changed]
        else:
            d, changed = draw(field_mutation(desc, corpus_paths(i)))
            meta["ops"] += [repr(c[0][-1]) for c in changed]
        # a padding/auxiliary unit's next_parse_offset is its length: keep it bounded, otherwise the
        # serialiser zero-pads the payload to (up to) 4 GB one bit at a time
        for seq in d.get("sequences", []):
            for du in seq.get("data_units", []):
                pi = du.get("parse_info", {})
                pc = pi.get("parse_code")
                if isinstance(pc, int) and ((pc & 0xF8) == 0x20 or pc == 0x30) and isinstance(pi.get("next_parse_offset"), int):
                    pi["next_parse_offset"] = min(pi["next_parse_offset"], 13 + 2048)
        fix_offsets = draw(st.booleans())
        try:
            from vpbt.gen import streams as S

            with S.deser_guard():  # a mutant declaring huge sizes would spin in the serialiser's slice loops
                if fix_offsets:
                    # keep the parse offsets consistent with the mutated content so that the validator
                    # gets past the parse-info checks and reaches the mutated field
                    from vc2_conformance.bitstream.vc2_autofill import AUTO

                    touched = set(meta["ops"])
                    for seq in d["sequences"]:
                        for du in seq["data_units"]:
                            pi = du.get("parse_info")
                            if pi is not None:
                                if "'next_parse_offset'" not in touched:
                                    pi["next_parse_offset"] = AUTO
                                if "'previous_parse_offset'" not in touched:
                                    pi["previous_parse_offset"] = AUTO
                    meta["ops"].append("fix_offsets")
                    data = S.serialise_stream(d)
                else:
                    data = C.serialise_plain(d, defaults=True)
        except Exception as e:  # mutated description not serialisable / out of scope: discard (counted)
            # not serialisable (e.g. padding lengths no longer match the changed geometry): count it and
            # fall back to a byte-level mutation of the base stream so the example is not wasted
            meta["discarded"] = "%s:%s" % (meta["mode"], type(e).__name__)
            meta["mode"] = "bytes(fallback)"
            data, kinds = draw(byte_mutate(entry["data"]))
            meta["ops"] = kinds
            return data, meta
    if mode in ("bytes", "field+bytes"):
        data, kinds = draw(byte_mutate(data))
        meta["ops"] += kinds
    return data, meta


# --------------------------------------------------------------------------
# field-aware *bit-level* mutation: never discards


def _bitpos(tell):
    return tell[0] * 8 + (7 - tell[1])


_FIELDS = {}


def field_positions(i):
    """[(name, start_bit, end_bit, value, kind)] for corpus stream i, kind in {'fixed','uint','sint','bool'}.

    Positions are recorded with the repository's MonitoredDeserialiser; a field is kept only when the
    bits between the previous field's end and its own end are exactly its own encoding (so alignment
    and bounded-block padding are never mistaken for part of a field)."""
    if i in _FIELDS:
        return _FIELDS[i]
    from io import BytesIO

    from vc2_conformance import bitstream as B
    from vc2_conformance.pseudocode.state import State
    from vpbt.oracles.sizes import sint_bits, uint_bits

    data = C.corpus()[i]["data"]
    events = []
    last = [0]

    def monitor(des, target, value):
        end = _bitpos(des.io.tell())
        events.append((target, last[0], end, value))
        last[0] = end

    with B.MonitoredDeserialiser(monitor, B.BitstreamReader(BytesIO(data))) as des:
        B.parse_stream(des, State())
    out = []
    for name, start, end, value in events:
        n = end - start
        if isinstance(value, bool):
            if n == 1:
                out.append((name, start, end, value, "bool"))
        elif isinstance(value, int):
            v = int(value)
            if name in FIELD_BITS or name == "parse_info_prefix":
                if n in (7, 8, 16, 32) or (name == "slice_y_length" and 0 < n < 16):
                    out.append((name, start, end, v, "fixed"))
            elif v >= 0 and n == uint_bits(v) and not name.endswith("_transform"):
                out.append((name, start, end, v, "uint"))
            elif n == sint_bits(v):
                out.append((name, start, end, v, "sint"))
    _FIELDS[i] = out
    return out


def _uint_code(v):
    from bitarray import bitarray as ba

    out = ba()
    v += 1
    for b in bin(v)[3:]:
        out.append(0)
        out.append(b == "1")
    out.append(1)
    return out


def _sint_code(v):
    out = _uint_code(abs(v))
    if v:
        out.append(v < 0)
    return out


LD_WHOLE_PICTURES = ("ld_min", "ld_tiny_slices", "ld_asym", "ld_fields_420", "ld_16bit")


@st.composite
def ld_resize(draw, i):
    """Low-delay streams with other slice sizes: slice_bytes_numerator/denominator of every picture are replaced
    (tiny, zero-byte, uneven slices and larger ones) and the slice data by the right number of drawn bytes, so the
    stream still parses to its end; parse offsets are recomputed (half of the time)."""
    from bitarray import bitarray as ba

    data = C.corpus()[i]["data"]
    fields = field_positions(i)
    bits = ba()
    bits.frombytes(data)
    nums = [k for k, f in enumerate(fields) if f[0] == "slice_bytes_numerator"]
    num = draw(st.sampled_from([0, 1, 1, 2, 3, 5, 7, 16]))
    den = draw(st.sampled_from([1, 2, 2, 3, 4, 7]))
    fill = draw(st.sampled_from(["zeros", "ones", "random", "random"]))
    seed = draw(st.integers(0, 2 ** 32 - 1))
    import random

    rnd = random.Random(seed)
    for k in reversed(nums):
        sx = [f for f in fields[:k] if f[0] == "slices_x"][-1][3]
        sy = [f for f in fields[:k] if f[0] == "slices_y"][-1][3]
        first_q = next(j for j in range(k, len(fields)) if fields[j][0] == "qindex")
        nxt = next(j for j in range(first_q, len(fields)) if fields[j][0] == "parse_info_prefix")
        head_tail = bits[fields[k + 1][2]:fields[first_q - 1][2]]  # custom_quant_matrix flag (+ matrix)
        head = bits[:fields[k][1]] + _uint_code(num) + _uint_code(den) + head_tail
        head += ba("0" * ((-len(head)) % 8))
        # a slice of n >= 1 bytes takes 8n bits; a zero-byte slice still has its 7-bit qindex and a 4-bit length field
        # read (the bounded block that follows has a negative length and reads nothing)
        nbits = 0
        for n in range(sx * sy):
            sb = ((n + 1) * num) // den - (n * num) // den
            nbits += 8 * sb if sb >= 1 else 11
        nbits += (-nbits) % 8
        body = bytes({"zeros": 0, "ones": 255}.get(fill, rnd.getrandbits(8)) for _ in range(nbits // 8))
        b = ba()
        b.frombytes(body)
        bits = head + b + bits[fields[nxt][1]:]
    out = bytearray(bits.tobytes())
    ops = ["slice_bytes=%d/%d" % (num, den), fill]
    if draw(st.booleans()):
        # recompute the parse offsets from the positions of the parse_info prefixes
        pos = []
        k = out.find(b"BBCD")
        while k >= 0:
            pos.append(k)
            k = out.find(b"BBCD", k + 13)
        prev_in_seq = None
        for n, p in enumerate(pos):
            last = out[p + 4] == 0x10
            nxt_off = 0 if (last or n + 1 == len(pos)) else pos[n + 1] - p
            out[p + 5:p + 9] = nxt_off.to_bytes(4, "big")
            out[p + 9:p + 13] = (0 if prev_in_seq is None else p - prev_in_seq).to_bytes(4, "big")
            prev_in_seq = None if last else p
        ops.append("fix_offsets")
    return bytes(out), ops


def giant_values():
    """Variable-length integers are unbounded: values of hundreds to tens of thousands of bits (beyond 64-bit
    arithmetic, and beyond the 4300 decimal digits which Python >= 3.11 converts to text by default)."""
    return st.builds(lambda n, low: (1 << n) + low, st.sampled_from([64, 200, 1000, 14300, 14500, 20000, 40000]), st.integers(0, 1 << 32))


@st.composite
def bitfield_mutate(draw, i):
    """Replace the encoding of 1-3 fields of corpus stream i in the byte string itself."""
    from bitarray import bitarray as ba

    data = C.corpus()[i]["data"]
    fields = field_positions(i)
    bits = ba()
    bits.frombytes(data)
    hot = [k for k, f in enumerate(fields) if f[0] in HOT_FIELDS]
    chosen = []
    forced = {}
    if draw(st.sampled_from([False, False, False, True])):
        # paired mutation of the two offsets that link adjacent data units: the earlier unit's next_parse_offset
        # (zero / off by a little / invalid small value) together with the later unit's previous_parse_offset
        nxt = [k for k, f in enumerate(fields) if f[0] == "next_parse_offset"]
        prv = [k for k, f in enumerate(fields) if f[0] == "previous_parse_offset"]
        if len(nxt) >= 2 and len(prv) >= 2:
            j = draw(st.integers(0, len(nxt) - 2))
            a, b = nxt[j], prv[j + 1]
            forced[a] = draw(st.sampled_from([0, 0, fields[a][3], fields[a][3] + 1, 5, 13]))
            forced[b] = draw(st.sampled_from([0, fields[b][3] + 1, fields[b][3] - 1, fields[b][3], 1 << 20]))
            chosen += [a, b]
    if not chosen and draw(st.integers(0, 7)) == 0:
        # the two fields which together fix the slice sizes: tiny, zero-byte and uneven slices
        ld = [k for k, f in enumerate(fields) if f[0] in ("slice_bytes_numerator", "slice_bytes_denominator")]
        hq = [k for k, f in enumerate(fields) if f[0] in ("slice_prefix_bytes", "slice_size_scaler")]
        for k in ld or hq:
            name = fields[k][0]
            if name == "slice_bytes_numerator":
                forced[k] = draw(st.sampled_from([0, 1, 1, 2, 3, 5]))
            elif name == "slice_bytes_denominator":
                forced[k] = draw(st.sampled_from([1, 2, 2, 3, 4, 7]))
            elif name == "slice_prefix_bytes":
                forced[k] = draw(st.sampled_from([0, 0, 1, 2, 7]))
            else:
                forced[k] = draw(st.sampled_from([0, 1, 2, 3]))
            chosen.append(k)
    for _ in range(draw(st.integers(0 if chosen else 1, 2 if chosen else 3))):
        pool = hot if (hot and draw(st.integers(0, 2)) != 0) else list(range(len(fields)))
        chosen.append(pool[draw(st.integers(0, len(pool) - 1))])
    ops = []
    # apply from the last field backwards so earlier positions stay valid
    for k in sorted(set(chosen), reverse=True):
        name, start, end, value, kind = fields[k]
        if kind == "bool":
            code = ba([not value])
            new = not value
        elif kind == "fixed":
            n = end - start
            new = (forced[k] if k in forced else draw(new_value(value, name))) & ((1 << n) - 1)
            code = ba(format(new, "0%db" % n))
        elif kind == "uint" and k in forced:
            new = forced[k]
            code = _uint_code(new)
        elif kind == "uint":
            new = max(0, draw(_new_value(value, name)))
            if draw(st.integers(0, 11)) == 0:
                new = draw(giant_values())
            code = _uint_code(new)
        elif draw(st.integers(0, 15)) == 0:
            new = draw(giant_values()) * draw(st.sampled_from([1, -1]))
            code = _sint_code(new)
        else:
            new = draw(st.sampled_from([0, 1, -1, value + 1, -value, value * 2 + 1, (1 << draw(st.integers(1, 40))) - 1,
                                        -(1 << draw(st.integers(1, 40)))]))
            code = _sint_code(new)
        bits = bits[:start] + code + bits[end:]
        ops.append("%s:%r->%s" % (name, value, new if abs(new) < (1 << 64) else "~2^%d" % new.bit_length()))
    pad = (-len(bits)) % 8
    if pad:
        bits += ba("0" * pad)
    return bits.tobytes(), ops


HOT_FIELDS = set([
    "parse_code", "next_parse_offset", "previous_parse_offset", "picture_number", "fragment_slice_count",
    "fragment_x_offset", "fragment_y_offset", "fragment_data_length", "slice_y_length", "slice_c1_length",
    "slice_c2_length", "qindex", "major_version", "minor_version", "profile", "level", "base_video_format",
    "slices_x", "slices_y", "slice_bytes_numerator", "slice_bytes_denominator", "slice_prefix_bytes",
    "slice_size_scaler", "dwt_depth", "dwt_depth_ho", "wavelet_index", "wavelet_index_ho", "picture_coding_mode",
    "custom_quant_matrix", "asym_transform_flag", "asym_transform_index_flag", "frame_width", "frame_height",
    "index", "luma_excursion", "color_diff_excursion", "frame_rate_denom", "pixel_aspect_ratio_denom"])


def run_fuzz_shard(pid, k, ctx, runs):
    """Thorough tier only: one coverage-guided libFuzzer job (atheris) over raw bytes with the property's own
    oracle inside the target; odd jobs start from the empty corpus, even jobs from the valid corpus streams."""
    import json
    import os
    import shutil
    import subprocess
    import sys
    import tempfile

    from vpbt import core

    col = ctx.col
    target = os.path.join(core.VERIF, "vpbt", "fuzz", "validator_target.py")
    d = tempfile.mkdtemp(prefix="vpbt-fuzz-", dir="/tmp")
    try:
        out = os.path.join(d, "result.json")
        cmd = [sys.executable, target, "--out", out, "--props", pid, "--corpus", os.path.join(d, "corpus")]
        if k % 2 == 0:
            cmd.append("--seed-corpus")
        cmd += ["--", "-runs=%d" % runs, "-seed=%d" % (ctx.seed % (2 ** 31 - 1) + 1), "-max_len=2048", "-print_final_stats=0"]
        env = dict(os.environ, PYTHONHASHSEED="0")
        r = subprocess.run(cmd, env=env, stdout=subprocess.DEVNULL, stderr=subprocess.PIPE, text=True)
        if not os.path.exists(out):
            if "No module named 'atheris'" in r.stderr:
                col.count("fuzz_unavailable(atheris not installed: run MANIFEST.setup_cmd)")
                return
            raise RuntimeError("fuzz job produced no result: " + r.stderr[-500:])
        res = json.load(open(out))
        col.evaluations += res["execs"]
        col.count("fuzz_execs", res["execs"])
        col.count("fuzz_jobs")
        col.count("fuzz_nontrivial_execs", res["nontrivial"])
        for lab, n in res[pid]["labels"].items():
            col.count("fuzz:" + lab, n)
        for b, f in res[pid]["failures"].items():
            col.failure_counts[b] += res[pid]["failure_counts"].get(b, 1)
            col.failures.setdefault(b, f)
    finally:
        shutil.rmtree(d, ignore_errors=True)
