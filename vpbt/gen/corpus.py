"""A deterministic corpus of small valid streams generated from the current tree (DESIGN C02/C06)."""

import copy
from io import BytesIO

from vc2_data_tables import (
    BaseVideoFormats,
    ColorDifferenceSamplingFormats,
    Levels,
    ParseCodes,
    PictureCodingModes,
    PresetColorMatrices,
    PresetColorPrimaries,
    PresetTransferFunctions,
    Profiles,
    SourceSamplingModes,
    WaveletFilters,
)

from vc2_conformance import bitstream as B
from vc2_conformance.codec_features import CodecFeatures
from vc2_conformance.pseudocode.state import State
from vc2_conformance.pseudocode.video_parameters import set_source_defaults

from vpbt.gen import pictures as P
from vpbt.gen import streams as S
from vpbt.gen.configs import custom_matrix_shape

_CACHE = {}


def base_cf(**kw):
    vp = set_source_defaults(BaseVideoFormats.custom_format)
    vp.update(frame_width=8, frame_height=4, clean_width=8, clean_height=4,
              color_diff_format_index=ColorDifferenceSamplingFormats.color_4_4_4)
    vpk = kw.pop("vp", {})
    vp.update(vpk)
    if "clean_width" not in vpk:
        vp["clean_width"], vp["clean_height"] = vp["frame_width"], vp["frame_height"]
    cf = CodecFeatures(
        name="corpus", level=Levels.unconstrained, profile=Profiles.high_quality,
        picture_coding_mode=PictureCodingModes.pictures_are_frames, video_parameters=vp,
        wavelet_index=WaveletFilters.haar_with_shift, wavelet_index_ho=WaveletFilters.haar_with_shift,
        dwt_depth=1, dwt_depth_ho=0, slices_x=2, slices_y=1, fragment_slice_count=0,
        lossless=False, picture_bytes=24, quantization_matrix=None,
    )
    cf.update(kw)
    from vc2_data_tables import QUANTISATION_MATRICES

    key = (cf["wavelet_index"], cf["wavelet_index_ho"], cf["dwt_depth"], cf["dwt_depth_ho"])
    if cf["quantization_matrix"] is None and key not in QUANTISATION_MATRICES:
        cf["quantization_matrix"] = {
            level: {o: (level + i) % 4 for i, o in enumerate(orients)}
            for level, orients in custom_matrix_shape(cf["dwt_depth"], cf["dwt_depth_ho"]).items()
        }
    return cf


C420 = ColorDifferenceSamplingFormats.color_4_2_0
C422 = ColorDifferenceSamplingFormats.color_4_2_2
FIELDS = PictureCodingModes.pictures_are_fields
LD = Profiles.low_delay


def configs():
    W = WaveletFilters
    out = [
        ("hq_min", base_cf()),
        ("hq_lossless", base_cf(lossless=True, picture_bytes=None)),
        ("ld_min", base_cf(profile=LD, picture_bytes=16)),
        ("ld_tiny_slices", base_cf(profile=LD, picture_bytes=3, slices_x=3)),
        ("hq_frag1", base_cf(fragment_slice_count=1, slices_x=2, slices_y=2, picture_bytes=40)),
        ("hq_frag3", base_cf(fragment_slice_count=3, slices_x=2, slices_y=2, picture_bytes=40)),
        ("ld_frag2", base_cf(profile=LD, fragment_slice_count=2, slices_x=2, slices_y=2, picture_bytes=30)),
        ("hq_asym", base_cf(dwt_depth_ho=1, wavelet_index_ho=W.le_gall_5_3, picture_bytes=40)),
        ("hq_asym_index", base_cf(wavelet_index_ho=W.le_gall_5_3, picture_bytes=40,
                                  quantization_matrix={0: {"LL": 0}, 1: {"HL": 1, "LH": 1, "HH": 2}})),
        # vertical wavelet explicit and not the default, horizontal wavelet equal to its documented default
        # (haar_with_shift): the horizontal index may be omitted from a description
        ("hq_asym_index_ho_default", base_cf(wavelet_index=W.le_gall_5_3, wavelet_index_ho=W.haar_with_shift, picture_bytes=40,
                                             quantization_matrix={0: {"LL": 0}, 1: {"HL": 1, "LH": 1, "HH": 2}})),
        # 64-bit samples (mid-grey is 2^63: beyond a signed 64-bit integer)
        ("hq_lossless_64bit", base_cf(lossless=True, picture_bytes=None,
                                      vp=dict(luma_excursion=(1 << 64) - 1, color_diff_excursion=(1 << 64) - 1,
                                              luma_offset=0, color_diff_offset=1 << 63))),
        ("hq_ho_only", base_cf(dwt_depth=0, dwt_depth_ho=2, picture_bytes=40)),
        ("ld_asym", base_cf(profile=LD, dwt_depth_ho=1, picture_bytes=20)),
        ("hq_fields", base_cf(picture_coding_mode=FIELDS, vp=dict(frame_height=8), picture_bytes=30)),
        ("ld_fields_420", base_cf(profile=LD, picture_coding_mode=FIELDS, picture_bytes=20,
                                  vp=dict(frame_height=8, color_diff_format_index=C420))),
        ("hq_420", base_cf(vp=dict(color_diff_format_index=C420), picture_bytes=30)),
        ("hq_422_10bit", base_cf(vp=dict(color_diff_format_index=C422, luma_excursion=876, luma_offset=64,
                                         color_diff_excursion=896, color_diff_offset=512), picture_bytes=50)),
        # fully custom colour specification (custom primaries, matrix and a version-3 transfer function) + custom
        # frame rate / pixel aspect ratio / clean area / scan format
        ("hq_custom_color", base_cf(picture_bytes=40, vp=dict(
            color_primaries_index=PresetColorPrimaries.d_cinema, color_matrix_index=PresetColorMatrices.reversible,
            transfer_function_index=PresetTransferFunctions.hybrid_log_gamma, frame_rate_numer=30000, frame_rate_denom=1001,
            pixel_aspect_ratio_numer=12, pixel_aspect_ratio_denom=11, clean_width=6, clean_height=2, left_offset=1, top_offset=1,
            source_sampling=SourceSamplingModes.interlaced, top_field_first=False))),
        ("hq_custom_matrix", base_cf(quantization_matrix={0: {"LL": 3}, 1: {"HL": 1, "LH": 2, "HH": 5}})),
        ("hq_depth2_legall", base_cf(wavelet_index=W.le_gall_5_3, wavelet_index_ho=W.le_gall_5_3, dwt_depth=2,
                                     picture_bytes=60, vp=dict(frame_width=12, frame_height=6))),
        ("hq_dd97", base_cf(wavelet_index=W.deslauriers_dubuc_9_7, wavelet_index_ho=W.deslauriers_dubuc_9_7,
                            picture_bytes=50)),
        ("hq_depth0", base_cf(dwt_depth=0, picture_bytes=60)),
        ("hq_odd", base_cf(vp=dict(frame_width=7, frame_height=5), slices_x=3, slices_y=2, picture_bytes=60)),
        ("hq_scaler", base_cf(picture_bytes=2 * (4 + 300), vp=dict(frame_width=16, frame_height=8,
                                                                   luma_excursion=65535, color_diff_excursion=65535))),
        ("ld_16bit", base_cf(profile=LD, picture_bytes=100, vp=dict(luma_excursion=65535, color_diff_excursion=65535,
                                                                    color_diff_offset=32768))),
        ("hq_base_qcif_custom", base_cf(vp=dict(frame_width=16, frame_height=8), picture_bytes=64, slices_x=4, slices_y=2)),
    ]
    return out


def _build():
    entries = []
    for name, cf in configs():
        fields = cf["picture_coding_mode"] == FIELDS
        specs = [("noise", "ramp", "noise", 11), ("checker", "noise", "constmid", 12)]
        pics = P.build_pictures(cf, specs, None)
        data, seq = S.encode(cf, pics)
        entries.append(dict(name=name, cf=cf, data=data))
    # structural variants: padding + aux units, repeated sequence header, two sequences
    cf = base_cf()
    pics = P.build_pictures(cf, [("noise", "noise", "noise", 5), ("ramp", "ramp", "ramp", 6)], [7, 8])
    from vc2_conformance.encoder import make_sequence

    seq = make_sequence(cf, pics, "sequence_header (padding_data high_quality_picture auxiliary_data sequence_header)* end_of_sequence")
    for du in seq["data_units"]:
        if "padding" in du:
            du["padding"]["bytes"] = b"\x00\x01\xff\x42BBCD"
        if "auxiliary_data" in du:
            du["auxiliary_data"]["bytes"] = b"aux"
    entries.append(dict(name="hq_padded", cf=cf, data=S.serialise_stream(B.Stream(sequences=[seq]))))
    cf2 = base_cf(profile=LD, picture_bytes=16, fragment_slice_count=1)
    # NB: autofill leaves 0 placeholders for parse offsets in the description, so sequences that
    # were already serialised must not be re-used: build fresh ones.
    seq2 = make_sequence(cf2, P.build_pictures(cf2, [("noise", "noise", "noise", 9)], None))
    seq1 = make_sequence(cf, P.build_pictures(cf, [("noise", "noise", "noise", 3)], None))
    entries.append(dict(name="two_sequences", cf=cf, data=S.serialise_stream(B.Stream(sequences=[seq1, seq2]))))
    # two sequences with the same transform / slice parameters but different picture sizes and chroma formats
    cfa = base_cf(picture_bytes=40)
    cfb = base_cf(picture_bytes=40, vp=dict(frame_width=16, frame_height=8, color_diff_format_index=C422))
    sqa = make_sequence(cfa, P.build_pictures(cfa, [("noise", "noise", "noise", 41)], None))
    sqb = make_sequence(cfb, P.build_pictures(cfb, [("noise", "noise", "noise", 42)], None))
    # (serialised one by one and concatenated, which is a conformant stream as well: the corpus itself should not depend
    # on one serialiser run getting several formats right -- that is for the round-trip checks to find out)
    entries.append(dict(name="two_formats", cf=cfa, data=S.serialise_stream(B.Stream(sequences=[sqa])) + S.serialise_stream(B.Stream(sequences=[sqb]))))
    # picture-less sequences under real levels (level-constrained headers; the levels' ordering patterns apply)
    for nm, level, base in (("level1_empty", 1, BaseVideoFormats.qsif525), ("level3_empty", 3, BaseVideoFormats.hd720p_60)):
        cl = base_cf(level=Levels(level), lossless=True, picture_bytes=None, wavelet_index=WaveletFilters.le_gall_5_3,
                     wavelet_index_ho=WaveletFilters.le_gall_5_3, dwt_depth=2, slices_x=1, slices_y=1)
        cl["video_parameters"] = set_source_defaults(base)
        entries.append(dict(name=nm, cf=cl, data=S.serialise_stream(B.Stream(sequences=[make_sequence(cl, [])]))))
    # picture-less sequences (sequence header + end of sequence), both profiles
    for nm, c in (("hq_empty", cf), ("ld_empty", base_cf(profile=LD, picture_bytes=16))):
        entries.append(dict(name=nm, cf=c, data=S.serialise_stream(B.Stream(sequences=[make_sequence(c, [])]))))
    # whole picture followed by a fragmented picture in one sequence (level 0, version 3)
    cff = base_cf(fragment_slice_count=1, slices_x=2, slices_y=2, picture_bytes=40)
    cfp = base_cf(slices_x=2, slices_y=2, picture_bytes=40)
    sa = make_sequence(cfp, P.build_pictures(cfp, [("noise", "noise", "noise", 31)], None))
    sb = make_sequence(cff, P.build_pictures(cff, [("ramp", "noise", "noise", 32)], None))
    mixed = B.Sequence(data_units=[sb["data_units"][0]] + sa["data_units"][1:-1] + sb["data_units"][1:])
    entries.append(dict(name="hq_picture_then_fragments", cf=cff, data=S.serialise_stream(B.Stream(sequences=[mixed]))))
    return entries


def corpus():
    """List of dicts {name, cf, data(bytes)}; built once per process from the current tree."""
    if "c" not in _CACHE:
        _CACHE["c"] = _build()
    return _CACHE["c"]


def deserialise(data):
    """bytes -> Stream description (raises whatever the deserialiser raises)."""
    reader = B.BitstreamReader(BytesIO(data))
    with B.Deserialiser(reader) as des:
        B.parse_stream(des, State())
    return des.context


def descriptions():
    """Deserialised descriptions of the corpus streams (cached; deep-copy before mutating)."""
    if "d" not in _CACHE:
        _CACHE["d"] = [deserialise(e["data"]) for e in corpus()]
    return _CACHE["d"]


def serialise_plain(desc, defaults=False):
    """Stream description -> bytes using the plain Serialiser (no autofill; defaults only on request)."""
    f = BytesIO()
    w = B.BitstreamWriter(f)
    with (B.Serialiser(w, desc, B.vc2_default_values) if defaults else B.Serialiser(w, desc)) as ser:
        B.parse_stream(ser, State())
    w.flush()
    return f.getvalue()
