"""./check <Cnn> [--tier quick|thorough] [--replay FILE] [--procs N] [--budget SECONDS]

exit 0: property held on everything explored; exit 1: VIOLATION line(s) printed;
exit 2: harness error (never a verdict).
"""

import argparse
import os
import sys
import traceback


def main(argv=None):
    ap = argparse.ArgumentParser(prog="check")
    ap.add_argument("property")
    ap.add_argument("--tier", choices=["quick", "thorough"],
                    default=os.environ.get("VERIF_TIER") or "quick")
    ap.add_argument("--replay")
    ap.add_argument("--procs", type=int, default=int(os.environ.get("VPBT_PROCS", "16")))
    ap.add_argument("--budget", type=float, default=None,
                    help="soft wall-clock budget in seconds: shards stop generating (inconclusive)")
    args = ap.parse_args(argv)
    try:
        seed = int(os.environ.get("VERIF_SEED", "1") or "1")
    except ValueError:
        seed = 1
    pid = args.property.upper()
    try:
        from vpbt import runner

        if args.replay:
            return runner.run_replay(pid, args.replay)
        return runner.run_check(pid, args.tier, seed, procs=args.procs, budget_s=args.budget)
    except SystemExit:
        raise
    except BaseException:
        sys.stderr.write("HARNESS ERROR:\n" + traceback.format_exc())
        return 2


if __name__ == "__main__":
    sys.exit(main())
