"""C02 — validator terminates with a verdict on any byte string."""

import importlib
import signal

from hypothesis import strategies as st

from vpbt.core import run_given
from vpbt.gen import mutate as M
from vpbt.gen import streams as S

ID = "C02"
LEVEL = "exploration"
RULE = (
    "Byte strings: (i) 1-4 stacked byte-level mutations (bit flip, interesting byte/word, insert, delete, truncate, duplicate chunk, "
    "splice of two valid streams) of 34 valid streams generated from the current tree (both profiles, fragments 1/2/3, lossless, "
    "asymmetric, horizontal-only, fields, 4:2:0/4:2:2, 10/16 bit, custom matrix, slice size scaler > 1, padding/auxiliary units, "
    "two sequences); (ii) field-level mutations: deserialise, replace 1-3 fields (biased to parse codes, offsets, picture numbers, "
    "fragment counters, slice lengths, qindex, version/profile/level, transform and slice parameters) by 0/1/+-1/bit flip/field "
    "maximum/random, re-serialise without autofill; (iii) unit-level drop/duplicate/swap/move/split; (iv) random bytes with and "
    "without a valid parse-info prefix. Oracle: init_io+parse_stream under the size guard returns, raises a ConformanceError or is "
    "out of scope; every ConformanceError must explain(), str(), offending_offset() (None or int >= 0), format its viewer hint and "
    "wrap. Anything else (or no verdict within 20 s CPU) is a violation, bucketed by exception type + innermost repo frame. "
    "Non-trivial = the validator got past the first parse-info header (read more than 13 bytes); distinct by byte-string hash."
)
ASSUMPTIONS = [
    "Streams declaring frame sizes > 64, depths > 4, slice counts > 16, excursions > 2^32, slice_bytes_numerator > 4096, prefix bytes / scaler > 64 are out of scope (counted).",
    "Mutated descriptions that cannot be serialised are discarded (counted).",
]


class _Timeout(Exception):
    pass


def _alarm(signum, frame):
    raise _Timeout()


def judge(data, col, meta=None):
    """Returns (outcome label, nontrivial)"""
    from vc2_conformance import decoder as D

    rec = {"hex": data.hex()}
    signal.signal(signal.SIGVTALRM, _alarm)
    signal.setitimer(signal.ITIMER_VIRTUAL, 20.0)
    try:
        try:
            v = S.validate(data, guard=True)
        finally:
            signal.setitimer(signal.ITIMER_VIRTUAL, 0)
    except _Timeout:
        col.fail("no-verdict-within-20s-cpu", rec, "validator produced no verdict within 20 s of CPU time on a %d byte stream" % len(data))
        return "timeout", True
    except RecursionError as e:
        col.fail(col.crash_bucket(e), rec, "validator raised RecursionError")
        return "crash", True
    except Exception as e:
        col.fail(col.crash_bucket(e), rec, "validator raised %s: %s (not a ConformanceError)" % (type(e).__name__, str(e)[:200]))
        return "crash", True
    try:
        pos = D.tell(v.state)[0]
    except Exception:
        pos = 0
    nontrivial = pos > 13
    if v.out_of_scope is not None:
        return "out_of_scope", False
    if v.error is None:
        return "accepted", nontrivial
    e = v.error
    try:
        msg = S.check_error_reporting(e)
    except Exception as x:
        # explain()/hint called as library functions failed. The property's subject is the validator *tool*, which may
        # prepare the interpreter before reporting (e.g. lift Python's int->str digit limit): ask the tool itself.
        tool = explained_by_tool(data)
        if tool is not None:
            col.fail("report:%s:%s" % (type(e).__name__, type(x).__name__), rec,
                     "%s could not be explained/located/hinted: %s: %s; validator command: %s" % (type(e).__name__, type(x).__name__, str(x)[:200], tool))
        else:
            col.count("explained_by_tool_only")
        return "err:" + type(e).__name__, nontrivial
    if msg:
        col.fail("report:%s" % type(e).__name__, rec, "%s: %s" % (type(e).__name__, msg))
    return "err:" + type(e).__name__, nontrivial


def explained_by_tool(data):
    """Run the real validator command in-process on data; None if it exits 2 with a located explanation and a viewer
    hint, otherwise a description of what went wrong."""
    import contextlib
    import io
    import os
    import re
    import shutil
    import tempfile

    V = importlib.import_module("vc2_conformance.scripts.vc2_bitstream_validator")
    d = tempfile.mkdtemp(prefix="vpbt-c02-", dir="/tmp")
    out, err = io.StringIO(), io.StringIO()
    try:
        path = os.path.join(d, "in.vc2")
        with open(path, "wb") as f:
            f.write(data)
        try:
            with S.size_guard(), contextlib.redirect_stdout(out), contextlib.redirect_stderr(err):
                code = V.main([path, "--no-status", "--output", os.path.join(d, "p_%d.raw")])
        except BaseException as x:
            return "%s escaped main(): %s" % (type(x).__name__, str(x)[:200])
        if code != 2:
            return "exit status %r: %s" % (code, err.getvalue().strip()[-200:])
        text = out.getvalue()
        if not re.search(r"Conformance error at bit offset \d+\n=+\n", text):
            return "exit status 2 without a located explanation"
        if "vc2-bitstream-viewer" not in text:
            return "exit status 2 without a bitstream viewer hint"
        return None
    finally:
        shutil.rmtree(d, ignore_errors=True)


def body(case, col):
    data, meta = case
    if "discarded" in meta:
        col.count("field_mutant_unserialisable")
        col.count("field_mutant_unserialisable:" + meta["discarded"])
    outcome, nt = judge(data, col, meta)
    col.case(key=data, nontrivial=nt and outcome != "out_of_scope",
             labels=("mode:" + meta["mode"], outcome),
             sample=lambda: {"base": meta["base"], "mode": meta["mode"], "ops": meta["ops"], "outcome": outcome,
                             "bytes": len(data), "hex_prefix": data[:32].hex()})


def shards(tier):
    if tier == "quick":
        return list(range(16))
    # thorough: 64 generator shards + 16 coverage-guided fuzzing jobs (atheris/libFuzzer, oracle inside the target)
    return list(range(64)) + [("fuzz", k) for k in range(16)]


def run_shard(spec, ctx):
    if isinstance(spec, tuple) and spec[0] == "fuzz":
        return M.run_fuzz_shard("C02", spec[1], ctx, 40000)
    run_given(M.mutated_streams(), body, ctx, ctx.pick(1900, 6000))
    ctx.col.extra["distinct_error_classes"] = len([l for l in ctx.col.labels if l.startswith("err:")])


def replay(data, col):
    blob = bytes.fromhex(data["hex"])
    outcome, nt = judge(blob, col)
    col.case(key=blob, nontrivial=nt, labels=(outcome,))
