"""C16 — encoder respects any level table it claims to satisfy."""

import contextlib
from fractions import Fraction

from hypothesis import strategies as st

import vc2_data_tables as T
from vc2_data_tables import (
    BaseVideoFormats,
    Levels,
    PictureCodingModes,
    Profiles,
    WaveletFilters,
)

from vpbt.core import run_given
from vpbt.gen import configs as G
from vpbt.gen import pictures as P
from vpbt.gen import streams as S
from vpbt.props import c15 as H

ID = "C16"
LEVEL = "exploration"
RULE = (
    "Synthetic stratum (main): a tiny valid configuration (frame <= 12 px, all wavelets, depth 0-2, LD/HQ/lossless, fragments, "
    "custom matrices; frame rate / aspect ratio / colour spec perturbed as in C15, signal range presets and customs) plus a "
    "single-column level table generated for it and substituted in-process for level 1 together with an ordering pattern from "
    "a family of 11 (anything; SH + units; SH before every picture / picture run; mandatory trailing padding; padding+auxiliary "
    "tail; auxiliary after every picture; wrong picture type; real level-1 pattern; ...). Cells: trivial keys the encoder "
    "documents it checks (profile, coding mode, wavelet, depth, slice counts, same-dimensions, slice bytes / prefix bytes, "
    "custom-matrix flag) any/exact/containing/restricting; every custom_*_flag and asym_*_flag any/{F,T}/{True}/{False}; preset "
    "index cells any/index-0-only/presets-only/exact/containing/excluding-the-matching-preset; base_video_format any/subset/other-field-order; value cells "
    "any/exact/containing/restricting/empty; wavelet_index_ho and dwt_depth_ho restricted only when the configuration is "
    "symmetric in that respect (the encoder then owns the choice not to emit them); tables are drawn loose / medium / tight, and "
    "a quarter are 'one_trivial': loose but excluding the configuration's value of exactly one trivial key. Caller-owned unchecked keys "
    "(quant_matrix_values, slice_size_scaler, major/minor_version, qindex, total_slice_bytes, ho keys of asymmetric "
    "configurations) are 'any' in this stratum. Real stratum: level 1 (base formats 1-4; thorough also 24 level-2 cases) "
    "with configurations built from the table, a third with one perturbed parameter group or an asymmetric transform. "
    "Multi-column synthetic stratum (labelled multi:*): a format near a base video format (C15's level-0 generator) under 2-3 "
    "generated columns sharing level 1 whose base_video_format sets partition the formats of the configuration's field order "
    "(sometimes overlapping) and whose trivial cells are shared (4 of 5); in 3 of 4 cases the column owning the most similar "
    "base format is made unable to express one group the format needs (flag {False} / value excluded / index cell empty) "
    "while another column can; no pictures (make_sequence(cf, []) in shards 'multi', or - 'multih' - the two data units it "
    "consists of, built with make_sequence_header_data_unit to avoid the 0.1-0.4 s ordering solver). Picture-less real stratum "
    "(real0:*): every column of real levels 1-7, base format and coding mode from the column or (a third) from another column "
    "of the same level, groups customised from the column's cells, a quarter with one free perturbation; same two entry points. "
    "Diagnostic stratum (never a violation): exactly one caller-owned key restricted, everything else any; thorough also one "
    "real level-64 and level-65 stream. Oracle: make_sequence raises a subclass of UnsatisfiableCodecFeaturesError (counted) or "
    "the autofilled serialised stream is accepted by parse_stream under the same substituted tables. Non-trivial = accepted "
    "with >= 2 restricting cells on encoder-owned keys (forced flags, restricted index / base-format cells, ho cells), or a "
    "raise while a trivial key was restricted; multi / real0: any accept, or a raise of a directed / near-miss case; distinct "
    "by hash of (configuration, columns, pattern)."
)
ASSUMPTIONS = [
    "Caller-owned level keys which encoder/__init__.py documents as the caller's responsibility are never restricted in the "
    "violation-raising strata (DESIGN section 7.2); they are exercised in a diagnostic stratum whose outcomes are only counted.",
    "Empty asym_transform*_flag cells (meaning 'stream must be version < 3') are only generated in the diagnostic stratum: the "
    "version is dictated by caller-owned features (fragments).",
    "Lossy configurations get a generous bit budget (the budget/qindex interplay is C03/C14's subject); a case whose budget has "
    "no representable qindex (harness size model) is out of domain.",
    "The picture-less strata judge sequence header + end of sequence only; the 'header_unit' entry assembles exactly the data "
    "units make_sequence(cf, []) yields for patterns admitting them (checked by the make_sequence shards) without the solver.",
    "Real levels above 2 are not encoded in full (1280x720 and larger cost > 20 s per case); their tables differ from level 1/2 "
    "only in base formats, one frame-rate index and slice geometry.",
]

SYN_LEVEL = 1
FLAG_KEYS = [
    "custom_dimensions_flag", "custom_color_diff_format_flag", "custom_scan_format_flag", "custom_frame_rate_flag",
    "custom_pixel_aspect_ratio_flag", "custom_clean_area_flag", "custom_signal_range_flag", "custom_color_spec_flag",
    "custom_color_primaries_flag", "custom_color_matrix_flag", "custom_transfer_function_flag",
    "asym_transform_index_flag", "asym_transform_flag",
]
INDEX_KEYS = {
    "frame_rate_index": ("frame_rate", T.PRESET_FRAME_RATES),
    "pixel_aspect_ratio_index": ("par", T.PRESET_PIXEL_ASPECT_RATIOS),
    "custom_signal_range_index": ("signal_range", T.PRESET_SIGNAL_RANGES),
    "color_spec_index": ("color_spec", T.PRESET_COLOR_SPECS),
}
VP_VALUE_KEYS = [k for g in H.GROUPS if g != "tff" for k in H.GROUP_KEYS[g]]
TRIVIAL_KEYS = ["profile", "picture_coding_mode", "wavelet_index", "dwt_depth", "slices_x", "slices_y",
                "slices_have_same_dimensions", "slice_bytes_numerator", "slice_bytes_denominator", "slice_prefix_bytes",
                "custom_quant_matrix"]
CALLER_KEYS = ["quant_matrix_values", "slice_size_scaler", "major_version", "minor_version", "qindex", "total_slice_bytes"]
HO_KEYS = ["wavelet_index_ho", "dwt_depth_ho"]
ALL_KEYS = (["level", "base_video_format"] + TRIVIAL_KEYS + FLAG_KEYS + sorted(INDEX_KEYS) + VP_VALUE_KEYS + CALLER_KEYS + HO_KEYS)
ENUM_UNIVERSE = {
    "color_diff_format_index": [0, 1, 2], "source_sampling": [0, 1], "color_primaries_index": [0, 1, 2, 3, 4],
    "color_matrix_index": [0, 1, 2, 3, 4], "transfer_function_index": [0, 1, 2, 3, 4, 5], "wavelet_index": [0, 1, 2, 3, 4, 5, 6],
    "wavelet_index_ho": [0, 1, 2, 3, 4, 5, 6], "profile": [0, 3], "picture_coding_mode": [0, 1],
    "slices_have_same_dimensions": [False, True], "custom_quant_matrix": [False, True],
}
REAL_L1_PATTERN = ("sequence_header ( (sequence_header | auxiliary_data | padding_data | low_delay_picture | high_quality_picture)* | "
                   "(sequence_header | auxiliary_data | padding_data | low_delay_picture_fragment | high_quality_picture_fragment)*) "
                   "end_of_sequence")


# ---------------------------------------------------------------------------
# table substitution (in place, as tests/alternative_level_constraints.py)


def cell_from_json(j):
    from vc2_conformance.constraint_table import AnyValue, ValueSet

    if j == "any":
        return AnyValue()
    vs = ValueSet(*j.get("v", []))
    for lo, hi in j.get("r", []):
        vs.add_range(lo, hi)
    return vs


@contextlib.contextmanager
def substituted_level(level, column_json, regex):
    from vc2_conformance.constraint_table import AnyValue
    from vc2_conformance.level_constraints import LEVEL_CONSTRAINTS, LEVEL_SEQUENCE_RESTRICTIONS, LevelSequenceRestrictions

    keys = set(ALL_KEYS)
    for c in LEVEL_CONSTRAINTS:
        keys.update(c.keys())
    columns = []
    for cj in (column_json if isinstance(column_json, list) else [column_json]):
        column = {k: AnyValue() for k in keys}
        column.update({k: cell_from_json(j) for k, j in cj.items()})
        columns.append(column)
    saved_cols = list(LEVEL_CONSTRAINTS)
    lv = Levels(level)
    saved_restr = LEVEL_SEQUENCE_RESTRICTIONS[lv]
    try:
        LEVEL_CONSTRAINTS[:] = [c for c in saved_cols if level not in c["level"]] + columns
        LEVEL_SEQUENCE_RESTRICTIONS[lv] = LevelSequenceRestrictions("synthetic (vpbt C16)", regex)
        yield
    finally:
        LEVEL_CONSTRAINTS[:] = saved_cols
        LEVEL_SEQUENCE_RESTRICTIONS[lv] = saved_restr


# ---------------------------------------------------------------------------
# configurations


@st.composite
def tiny_configs(draw, level=SYN_LEVEL):
    cf = draw(G.codec_features(max_size=12, max_depth_bits=12, max_dwt=2, max_dwt_ho=1, simple_vp=True, max_slices=3,
                               big_budget=True, max_matrix=8))
    vp, pcm = cf["video_parameters"], cf["picture_coding_mode"]
    for g in ("frame_rate", "par", "color_spec"):
        if draw(st.booleans()):
            H.perturb(draw, vp, pcm, g)
    cf["level"] = Levels(level)
    cf["name"] = "c16"
    fields = pcm == PictureCodingModes.pictures_are_fields
    n = 2 if fields else draw(st.sampled_from([1, 1, 2]))
    specs = [(draw(st.sampled_from(["noise", "ramp", "constmid", "checker"])),) * 3 + (draw(st.integers(0, 999)),) for _ in range(n)]
    return cf, specs


def picture_symbol(cf):
    s = "high_quality_picture" if cf["profile"] == Profiles.high_quality else "low_delay_picture"
    return s + ("_fragment" if cf["fragment_slice_count"] else "")


def other_symbol(cf):
    s = "low_delay_picture" if cf["profile"] == Profiles.high_quality else "high_quality_picture"
    return s + ("_fragment" if cf["fragment_slice_count"] else "")


def patterns_for(cf):
    pic, oth = picture_symbol(cf), other_symbol(cf)
    return [
        ("anything", ".*"),
        ("sh_units", "sequence_header (%s | sequence_header | padding_data | auxiliary_data)* end_of_sequence" % pic),
        ("sh_per_run", "(sequence_header %s+)+ end_of_sequence" % pic),
        ("sh_per_unit", "(sequence_header %s)+ end_of_sequence" % pic),
        ("trailing_padding", "sequence_header .* padding_data end_of_sequence"),
        ("pad_aux_tail", "(sequence_header %s+)+ padding_data auxiliary_data end_of_sequence" % pic),
        ("aux_after_unit", "sequence_header (%s auxiliary_data)* end_of_sequence" % pic),
        ("wrong_picture_type", "sequence_header (%s)* end_of_sequence" % oth),
        ("real_level_1", REAL_L1_PATTERN),
        ("two_leading", "sequence_header padding_data? auxiliary_data (%s | padding_data)* end_of_sequence" % pic),
        ("padded_runs", "(sequence_header padding_data %s+ auxiliary_data?)+ end_of_sequence" % pic),
    ]


def own_trivial_values(cf):
    """What the stream will contain for the keys the encoder documents it checks (harness arithmetic)."""
    vp, pcm = cf["video_parameters"], cf["picture_coding_mode"]
    lw, lh, cw, ch = G.dims(vp, pcm)
    sw, sh = 1 << (cf["dwt_depth"] + cf["dwt_depth_ho"]), 1 << cf["dwt_depth"]
    same = all((-(-v // s)) % n == 0 for v, s, n in ((lw, sw, cf["slices_x"]), (lh, sh, cf["slices_y"]),
                                                      (cw, sw, cf["slices_x"]), (ch, sh, cf["slices_y"])))
    out = dict(profile=int(cf["profile"]), picture_coding_mode=int(pcm), wavelet_index=int(cf["wavelet_index"]),
               dwt_depth=cf["dwt_depth"], slices_x=cf["slices_x"], slices_y=cf["slices_y"], slices_have_same_dimensions=same,
               custom_quant_matrix=cf["quantization_matrix"] is not None)
    if cf["profile"] == Profiles.low_delay:
        f = Fraction(cf["picture_bytes"], cf["slices_x"] * cf["slices_y"])
        out.update(slice_bytes_numerator=f.numerator, slice_bytes_denominator=f.denominator)
    else:
        out.update(slice_prefix_bytes=0)
    return out


def _others(draw, key, actual):
    """A few values different from ``actual`` (same type)."""
    if key in ENUM_UNIVERSE:
        vals = [v for v in ENUM_UNIVERSE[key] if v != actual]
        n = draw(st.integers(1, max(1, len(vals))))
        return vals[:n] if draw(st.booleans()) else vals[-n:]
    a = int(actual)
    cands = [a + 1, a + 2, max(0, a - 1), 2 * a + 1, 0, 1, 7]
    cands = [c for c in cands if c != a]
    n = draw(st.integers(1, 3))
    return sorted(set(cands[:n] if draw(st.booleans()) else cands[-n:]))


def value_cell(draw, key, actual, kinds):
    kind = draw(st.sampled_from(kinds))
    if kind == "any":
        return kind, "any"
    if isinstance(actual, bool):
        a = actual
    else:
        a = int(actual)
    if kind == "exact":
        return kind, {"v": [a]}
    if kind == "containing":
        if key not in ENUM_UNIVERSE and not isinstance(a, bool) and draw(st.booleans()):
            return kind, {"r": [[max(0, a - draw(st.integers(0, 5))), a + draw(st.integers(0, 5))]]}
        return kind, {"v": sorted(set([a] + _others(draw, key, a)), key=int)}
    if kind == "restrict":
        return kind, {"v": _others(draw, key, a)}
    return "empty", {"v": []}


def _w(**weights):
    return [k for k, n in weights.items() for _ in range(n)]


# cell-kind distributions by tightness of the generated table (loose tables are mostly accepted, tight ones mostly refused)
KINDS = {
    "loose": dict(trivial=_w(any=10, exact=5, containing=5), value=_w(any=40, exact=14, containing=14, restrict=1, empty=1),
                  flag=_w(any=20, both=3, true=3, false=1), always_custom_flag=_w(any=10, both=2, true=4),
                  index=_w(any=14, zero_only=1, presets_only=1, exact=1, containing=2, exclude_match=2), base=_w(any=10, subset=3, mixed=1)),
    "medium": dict(trivial=_w(any=20, exact=10, containing=10, restrict=1), value=_w(any=30, exact=12, containing=12, restrict=1, empty=1),
                   flag=_w(any=16, both=3, true=4, false=2), always_custom_flag=_w(any=10, both=2, true=5),
                   index=_w(any=12, zero_only=2, presets_only=1, exact=2, containing=3, exclude_match=3), base=_w(any=8, subset=5, mixed=1)),
    "tight": dict(trivial=_w(any=20, exact=10, containing=10, restrict=2), value=_w(any=20, exact=8, containing=8, restrict=1, empty=1),
                  flag=_w(any=10, both=2, true=4, false=3), always_custom_flag=_w(any=10, both=2, true=6, false=1),
                  index=_w(any=8, zero_only=2, presets_only=2, exact=2, containing=3, exclude_match=3), base=_w(any=5, subset=6, mixed=1, other_tff=1)),
}
ALWAYS_CUSTOM = ("custom_dimensions_flag", "custom_clean_area_flag")  # tiny frames equal no base format


@st.composite
def synthetic_columns(draw, cf, tightness=("loose", "loose", "loose", "medium", "medium", "tight", "one_trivial", "one_trivial")):
    """(column json, meta) for the main stratum."""
    col, kinds = {"level": {"v": [SYN_LEVEL]}}, {}
    tight = draw(st.sampled_from(list(tightness)))
    K = KINDS["loose" if tight == "one_trivial" else tight]
    kinds["tightness"] = tight
    vp = cf["video_parameters"]
    triv = own_trivial_values(cf)
    # one_trivial: an otherwise loose table that excludes the configuration's value of exactly one encoder-checked key
    victim = draw(st.sampled_from(sorted(triv))) if tight == "one_trivial" else None
    for k in TRIVIAL_KEYS:
        if k in triv:
            kinds[k], col[k] = value_cell(draw, k, triv[k], ["restrict"] if k == victim else K["trivial"])
        else:  # key of the other profile: never read
            col[k] = draw(st.sampled_from(["any", {"v": []}]))
    if victim:
        kinds["victim"] = victim
    for k in FLAG_KEYS:
        kind = draw(st.sampled_from(K["always_custom_flag"] if k in ALWAYS_CUSTOM else K["flag"]))
        kinds[k] = kind
        col[k] = {"any": "any", "both": {"v": [False, True]}, "true": {"v": [True]}, "false": {"v": [False]}}[kind]
    for k, (group, presets) in INDEX_KEYS.items():
        kind = draw(st.sampled_from(K["index"]))
        want = tuple(int(vp[x]) for x in H.GROUP_KEYS[group])
        match = [int(i) for i, p in presets.items() if tuple(int(x) for x in p) == want and int(i) != 0]
        allidx = sorted(int(i) for i in presets if int(i) != 0)
        if kind == "any":
            col[k] = "any"
        elif kind == "zero_only":
            col[k] = {"v": [0]}
        elif kind == "presets_only":
            col[k] = {"v": allidx}
        elif kind == "exclude_match":  # index 0 and presets other than the one(s) encoding the configured value
            others = [i for i in allidx if i not in match]
            col[k] = {"v": [0] + draw(st.lists(st.sampled_from(others), max_size=4, unique=True))}
        elif kind == "exact":
            col[k] = {"v": match[:1] or [0]}
        else:
            extra = draw(st.lists(st.sampled_from(allidx), min_size=1, max_size=3, unique=True))
            col[k] = {"v": sorted(set((match[:1] or [0]) + extra))}
        kinds[k] = kind
    for k in VP_VALUE_KEYS:
        kinds[k], col[k] = value_cell(draw, k, vp[k], K["value"])
    # base video format
    tff = vp["top_field_first"]
    same = [int(b) for b, p in T.BASE_VIDEO_FORMAT_PARAMETERS.items() if bool(p.top_field_first) == bool(tff)]
    diff = [int(b) for b in BaseVideoFormats if int(b) not in same]
    kind = draw(st.sampled_from(K["base"]))
    if kind == "any":
        col["base_video_format"] = "any"
    elif kind == "subset":
        col["base_video_format"] = {"v": sorted(draw(st.lists(st.sampled_from(same), min_size=1, max_size=6, unique=True)))}
    elif kind == "other_tff":
        col["base_video_format"] = {"v": sorted(draw(st.lists(st.sampled_from(diff), min_size=1, max_size=3, unique=True)))}
    else:
        col["base_video_format"] = {"v": sorted(set(draw(st.lists(st.sampled_from(same), min_size=1, max_size=2, unique=True))
                                                     + draw(st.lists(st.sampled_from(diff), min_size=1, max_size=2, unique=True))))}
    kinds["base_video_format"] = kind
    # ho keys: the encoder owns them only when the configuration does not need them
    if cf["wavelet_index"] == cf["wavelet_index_ho"] and kinds["asym_transform_index_flag"] != "true":
        kinds["wavelet_index_ho"], col["wavelet_index_ho"] = value_cell(draw, "wavelet_index_ho", cf["wavelet_index_ho"],
                                                                        ["any", "exact", "restrict", "empty"])
    else:
        kinds["wavelet_index_ho"], col["wavelet_index_ho"] = value_cell(draw, "wavelet_index_ho", cf["wavelet_index_ho"],
                                                                        ["any", "exact", "containing"])
    if cf["dwt_depth_ho"] == 0 and kinds["asym_transform_flag"] != "true":
        kinds["dwt_depth_ho"], col["dwt_depth_ho"] = value_cell(draw, "dwt_depth_ho", 0, ["any", "exact", "restrict", "empty"])
    else:
        kinds["dwt_depth_ho"], col["dwt_depth_ho"] = value_cell(draw, "dwt_depth_ho", cf["dwt_depth_ho"], ["any", "exact", "containing"])
    for k in CALLER_KEYS:
        col[k] = "any"
    return col, kinds


DIAG_CELLS = {
    "quant_matrix_values": [{"v": [0]}, {"r": [[0, 3]]}, {"v": []}],
    "slice_size_scaler": [{"v": [1]}, {"v": [2]}, {"v": []}],
    "major_version": [{"v": [1]}, {"v": [2]}, {"v": [3]}],
    "minor_version": [{"v": [0]}, {"v": [1]}],
    "qindex": [{"v": [0]}, {"r": [[0, 7]]}, {"r": [[1, 9]]}],
    "total_slice_bytes": [{"r": [[0, 8]]}, {"r": [[0, 64]]}, {"v": []}],
    "wavelet_index_ho": [{"v": []}, {"v": [0]}, {"v": [1, 2]}],
    "dwt_depth_ho": [{"v": []}, {"v": [1]}, {"v": [2]}],
    "asym_transform_index_flag": [{"v": []}],
    "asym_transform_flag": [{"v": []}],
}


@st.composite
def cases(draw, stratum):
    cf, specs = draw(tiny_configs())
    pats = patterns_for(cf)
    if stratum == "main":
        col, kinds = draw(synthetic_columns(cf))
        pname, regex = draw(st.sampled_from(pats[:1] * 5 + pats))
        return dict(stratum="main", cf=cf, specs=specs, column=col, kinds=kinds, pattern=pname, regex=regex)
    key = draw(st.sampled_from(sorted(DIAG_CELLS)))
    cell = draw(st.sampled_from(DIAG_CELLS[key]))
    return dict(stratum="diag", cf=cf, specs=specs, column={"level": {"v": [SYN_LEVEL]}, key: cell}, kinds={key: "diag"},
                pattern="anything", regex=".*", diag_key=key)


# ---------------------------------------------------------------------------
# real levels


@st.composite
def real_cases(draw, levels=(1,), max_base=4):
    """Level 1 (level 2 in dedicated thorough shards) configurations built from the real table."""
    cols = [(i, c) for i, c in H.real_columns() if H._cell_values(c["level"], [])[0] in levels]
    ci, col = cols[draw(st.integers(0, len(cols) - 1))]
    level = H._cell_values(col["level"], [])[0]
    bases = H._cell_values(col["base_video_format"], [])
    if level == 1:
        bases = [b for b in bases if b <= max_base]
        bases = bases[:2] * 4 + bases  # prefer the 176 pixel wide ones (cost)
    b = draw(st.sampled_from(bases))
    pcm = PictureCodingModes(draw(st.sampled_from(H._cell_values(col["picture_coding_mode"], [0, 1]))))
    vp = H.base_vp(b)
    for g in ["frame_size", "scan"]:
        flag = col[H.FLAG_OF[g]]
        if True in flag and (False not in flag or draw(st.booleans())):
            H.customise_from_cells(draw, vp, pcm, col, g)
    profile = draw(st.sampled_from([Profiles.high_quality, Profiles.low_delay]))
    wavelet = WaveletFilters(draw(st.sampled_from([0, 1, 2, 3, 4])))
    depth = draw(st.sampled_from([0, 1, 1, 2]))
    lw, lh, cw, ch = G.dims(vp, pcm)
    sc = 1 << depth
    divs = lambda a, b_: [n for n in (1, 2, 3, 4, 5, 8, 11) if (-(-a // sc)) % n == 0 and (-(-b_ // sc)) % n == 0]
    sx, sy = draw(st.sampled_from(divs(lw, cw))), draw(st.sampled_from(divs(lh, ch)))
    ns = sx * sy
    near = draw(st.sampled_from(["none", "none", "vp", "asym", "slices"]))
    wavelet_ho, depth_ho = wavelet, 0
    if near == "vp":
        H.perturb(draw, vp, pcm, draw(st.sampled_from(H.GROUPS)))
        H.fixup(vp, pcm)
    elif near == "asym":
        if draw(st.booleans()):
            wavelet_ho = WaveletFilters((int(wavelet) + 1) % 5)
        else:
            depth_ho = 1
    elif near == "slices":
        sx += 1
    qm = None
    if (wavelet, wavelet_ho, depth, depth_ho) not in T.QUANTISATION_MATRICES or draw(st.integers(0, 4)) == 0:
        qm = {lv: {o: draw(st.integers(0, 8)) for o in orients} for lv, orients in G.custom_matrix_shape(depth, depth_ho).items()}
    frag = draw(st.sampled_from([0, 0, ns, max(1, ns // 2)]))
    if profile == Profiles.high_quality and draw(st.booleans()):
        pb = None
    else:
        raw = G.raw_picture_bytes_estimate(vp, pcm, depth, depth_ho)
        pb = max(ns * 8, raw // draw(st.sampled_from([2, 4, 8])))
    from vc2_conformance.codec_features import CodecFeatures

    cf = CodecFeatures(name="c16real", level=Levels(level), profile=profile, picture_coding_mode=pcm, video_parameters=vp,
                       wavelet_index=wavelet, wavelet_index_ho=wavelet_ho, dwt_depth=depth, dwt_depth_ho=depth_ho, slices_x=sx, slices_y=sy,
                       fragment_slice_count=frag, lossless=pb is None, picture_bytes=pb, quantization_matrix=qm)
    n = 2 if pcm == PictureCodingModes.pictures_are_fields else 1
    specs = [(draw(st.sampled_from(["ramp", "constmid", "noise"])),) * 3 + (draw(st.integers(0, 99)),) for _ in range(n)]
    return dict(stratum="real", cf=cf, specs=specs, column=None, kinds={"near": near}, pattern="real", regex=None, table_column=ci)


# ---------------------------------------------------------------------------
# synthetic multi-column tables (several columns share the level number) - no pictures are encoded


def own_rank(vp):
    """Base formats with the configuration's field order, most similar first (harness' own count of differing keys)."""
    cands = [int(b) for b, p in T.BASE_VIDEO_FORMAT_PARAMETERS.items() if bool(p.top_field_first) == bool(vp["top_field_first"])]
    return sorted(cands, key=lambda b: sum(1 for k, v in H.base_vp(b).items() if vp[k] != v))


@st.composite
def multi_cases(draw, entry="make_sequence"):
    """A format near a base video format (as C15's level-0 stratum) under a 2-3 column level: the columns list
    different base formats and admit different custom flags / preset indices / values."""
    c = draw(H.level0_configs())
    cf = c["cf"]
    cf["level"] = Levels(SYN_LEVEL)
    cf["name"] = "c16multi"
    vp = cf["video_parameters"]
    ncols = draw(st.sampled_from([2, 2, 3]))
    drawn = [draw(synthetic_columns(cf, ("loose", "loose", "medium"))) for _ in range(ncols)]
    cols, kinds = [d[0] for d in drawn], {"columns": ncols}
    # columns must agree on the keys the encoder filters on, else only one survives (kept for a fifth of the cases)
    share = draw(st.integers(0, 4)) != 0
    if share:
        for cj in cols[1:]:
            for k in TRIVIAL_KEYS:
                cj[k] = cols[0][k]
    kinds["trivial_shared"] = share
    # base formats: disjoint sets (sometimes overlapping) of formats with the configuration's field order
    ranked = own_rank(vp)
    owner = draw(st.integers(0, ncols - 1))
    assign = {b: draw(st.integers(0, ncols - 1)) for b in ranked}
    assign[ranked[0]] = owner
    for i, cj in enumerate(cols):
        mine = [b for b in ranked if assign[b] == i]
        if draw(st.integers(0, 5)) == 0 and i != owner:
            mine.append(ranked[0])  # overlapping
        if not mine:
            mine = [draw(st.sampled_from(ranked[1:] or ranked))]
        cj["base_video_format"] = {"v": sorted(set(mine))}
    # directed difference: the column owning the most similar base format cannot express one group the
    # configuration needs, another column can
    mode = draw(st.sampled_from(["directed", "directed", "directed", "plain"]))
    best = H.base_vp(ranked[0])
    need = [g for g in H.FLAG_OF if any(vp[k] != best[k] for k in H.GROUP_KEYS[g])]
    if mode == "directed" and need:
        g = draw(st.sampled_from(need))
        other = draw(st.sampled_from([i for i in range(ncols) if i != owner]))
        how = draw(st.sampled_from(["flag_false", "flag_false", "value_excluded", "index_excluded"]))
        idx_key = {v[0]: k for k, v in INDEX_KEYS.items()}.get(g)
        if how == "index_excluded" and idx_key is None:
            how = "value_excluded"
        if how == "flag_false":
            cols[owner][H.FLAG_OF[g]] = {"v": [False]}
        elif how == "value_excluded":
            k = draw(st.sampled_from(list(H.GROUP_KEYS[g])))
            cols[owner][k] = {"v": _others(draw, k, vp[k])}
            if idx_key:
                cols[owner][idx_key] = {"v": [0]}
        else:
            cols[owner][idx_key] = {"v": []}
        cols[other][H.FLAG_OF[g]] = draw(st.sampled_from(["any", {"v": [True]}, {"v": [False, True]}]))
        for k in H.GROUP_KEYS[g]:
            cols[other][k] = "any"
        if idx_key:
            cols[other][idx_key] = "any"
        kinds["directed"] = "%s:%s" % (g, how)
    else:
        kinds["directed"] = "plain"
    pname, regex = draw(st.sampled_from([("anything", ".*")] * 6 + [("sh_units", "sequence_header (sequence_header | padding_data | auxiliary_data)* end_of_sequence"),
                                         ("trailing_padding", "sequence_header .* padding_data end_of_sequence"), ("real_level_1", REAL_L1_PATTERN)]))
    if entry == "header_unit":
        pname, regex = "anything", ".*"  # the ordering solver is bypassed, so the pattern must admit SH + EOS as they are
    return dict(stratum="multi", cf=cf, specs=[], column=cols, kinds=kinds, pattern=pname, regex=regex, entry=entry)


# ---------------------------------------------------------------------------
# real levels 1-7 without pictures (sequence header + end of sequence; their ordering patterns admit that)


@st.composite
def real0_cases(draw, entry="make_sequence"):
    cols = [(i, c) for i, c in H.real_columns() if H._cell_values(c["level"], [])[0] <= 7]
    ci, col = cols[draw(st.integers(0, len(cols) - 1))]
    level = H._cell_values(col["level"], [])[0]
    siblings = [(i, c) for i, c in cols if i != ci and H._cell_values(c["level"], [])[0] == level]
    mix = bool(siblings) and draw(st.integers(0, 2)) == 0
    bi, bcol = siblings[draw(st.integers(0, len(siblings) - 1))] if mix else (ci, col)
    b = draw(st.sampled_from(H._cell_values(bcol["base_video_format"], [])))
    pcm = PictureCodingModes(draw(st.sampled_from(H._cell_values((bcol if mix and draw(st.booleans()) else col)["picture_coding_mode"], [0, 1]))))
    vp = H.base_vp(b)
    custom = []
    for g in ["frame_size", "color_diff", "scan", "frame_rate", "par", "clean_area", "signal_range", "color_spec"]:
        flag = col[H.FLAG_OF[g]]
        if True in flag and (False not in flag or draw(st.integers(0, 2)) == 0):
            if H.customise_from_cells(draw, vp, pcm, col, g):
                custom.append(g)
    near = "mix" if mix else "none"
    if draw(st.integers(0, 3)) == 0:
        g = draw(st.sampled_from(H.GROUPS))
        H.perturb(draw, vp, pcm, g)
        near += "+" + g
    H.fixup(vp, pcm)
    profile = Profiles(draw(st.sampled_from([0, 3])))
    wavelet = draw(st.sampled_from(H._cell_values(col["wavelet_index"], [0, 1, 2, 3, 4])))
    depth = draw(st.sampled_from(H._cell_values(col["dwt_depth"], [0, 1, 2, 3, 4])))
    sx, sy = draw(st.sampled_from([1, 1, 2, 4, 5, 8])), draw(st.sampled_from([1, 1, 2, 3, 4]))
    if not H._own_same_dimensions(vp, pcm, depth, sx, sy) and draw(st.integers(0, 4)) != 0:
        sx = sy = 1
    pb = None if profile == Profiles.high_quality and draw(st.booleans()) else sx * sy * draw(st.integers(4, 64))
    cf = H.make_cf(level, profile, pcm, vp, wavelet, depth, sx, sy, pb)
    cf["name"] = "c16real0"
    return dict(stratum="real0", cf=cf, specs=[], column=None, kinds={"near": near, "custom": "+".join(custom) or "none"},
                pattern="real", regex=None, table_column=ci, base_column=bi, entry=entry)


# ---------------------------------------------------------------------------
# property


def case_json(case):
    d = {k: case.get(k) for k in ("stratum", "column", "kinds", "pattern", "regex", "diag_key", "table_column", "base_column", "entry")}
    d["config"] = G.config_json(case["cf"])
    d["specs"] = [list(s) for s in case["specs"]]
    return d


def case_from_json(d):
    case = {k: d.get(k) for k in ("stratum", "column", "kinds", "pattern", "regex", "diag_key", "table_column", "base_column", "entry")}
    case["cf"] = G.config_from_json(d["config"])
    case["specs"] = [tuple(s) for s in d["specs"]]
    case["kinds"] = case["kinds"] or {}
    return case


def restricting_encoder_cells(kinds):
    n = 0
    for k in FLAG_KEYS:
        n += kinds.get(k) in ("true", "false")
    for k in INDEX_KEYS:
        n += kinds.get(k) in ("zero_only", "presets_only", "exact", "containing", "exclude_match")
    n += kinds.get("base_video_format") in ("subset", "mixed", "other_tff")
    for k in HO_KEYS:
        n += kinds.get(k) in ("restrict", "empty")
    return n


def run_encoder_and_validator(case):
    """-> (outcome, detail). outcome in raise / accept / reject / unrepresentable / crash_encode / crash_validate."""
    from vc2_conformance.bitstream.exceptions import OutOfRangeError
    from vc2_conformance.encoder.exceptions import UnsatisfiableCodecFeaturesError
    from vpbt.oracles import sizes

    cf = case["cf"]
    pictures = P.build_pictures(cf, case["specs"], None)
    try:
        if case.get("entry") == "header_unit":
            # picture-less shortcut: the two data units make_sequence(cf, []) consists of, without its ordering solver
            from vc2_conformance import bitstream as B
            from vc2_conformance.encoder.sequence import make_end_of_sequence_data_unit
            from vc2_conformance.encoder.sequence_header import make_sequence_header_data_unit

            seq = B.Sequence(data_units=[make_sequence_header_data_unit(cf), make_end_of_sequence_data_unit()])
            blob = S.serialise_stream(B.Stream(sequences=[seq]))
        else:
            blob, seq = S.encode(cf, pictures)
    except UnsatisfiableCodecFeaturesError as e:
        return "raise", type(e).__name__
    except OutOfRangeError as e:
        if not cf["lossless"] and not sizes.budget_representable(cf, pictures):
            return "unrepresentable", None
        return "crash_encode", e
    except Exception as e:
        return "crash_encode", e
    try:
        v = S.validate(blob)
    except Exception as e:
        return "crash_validate", e
    if v.error is not None:
        return "reject", v.error
    units = [du["parse_info"]["parse_code"].name for du in seq["data_units"]]
    return "accept", units


def key_class(k):
    return ("trivial" if k in TRIVIAL_KEYS else "flag" if k in FLAG_KEYS else "index" if k in INDEX_KEYS else
            "base" if k == "base_video_format" else "ho" if k in HO_KEYS else "value" if k in VP_VALUE_KEYS else
            "caller" if k in CALLER_KEYS else str(k))


def err_tag(e, full=True):
    """ErrorType[:key] for diagnostics; ErrorType[:class of key] as root-cause bucket."""
    tag = type(e).__name__
    key = getattr(e, "key", None)
    if tag == "ValueNotAllowedInLevel" and key:
        tag += ":" + (str(key) if full else key_class(key))
    return tag


def body(case, col):
    cf, stratum, kinds = case["cf"], case["stratum"], case["kinds"]
    data = case_json(case)
    if stratum in ("real", "real0"):
        outcome, detail = run_encoder_and_validator(case)
    else:
        with substituted_level(SYN_LEVEL, case["column"], case["regex"]):
            outcome, detail = run_encoder_and_validator(case)
    lab = ["stratum:" + stratum, "pattern:" + case["pattern"], "profile:" + ("LD" if cf["profile"] == Profiles.low_delay else "HQ")]
    if cf["fragment_slice_count"]:
        lab.append("fragments")
    key = (G.config_key(cf), column_repr(case["column"]), case["regex"], stratum)
    if stratum == "diag":
        # never a violation: outcomes of restricting caller-owned keys are only counted
        dk = case["diag_key"]
        tag = {"raise": "encoder_raised:%s" % detail, "accept": "validator_accepted", "unrepresentable": "unrepresentable"}.get(outcome)
        if tag is None:
            tag = ("validator_rejected:" + err_tag(detail)) if outcome == "reject" else "%s:%s" % (outcome, type(detail).__name__)
        col.case(key=key, nontrivial=False, labels=lab + ["diag:%s:%s" % (dk, tag), "diag:%s:cell=%s" % (dk, cell_text(case["column"][dk]))])
        return
    nrestrict = restricting_encoder_cells(kinds)
    trivial_restricted = [k for k in TRIVIAL_KEYS if kinds.get(k) in ("restrict", "empty")]
    octx = outcome if outcome != "raise" else "raise:" + str(detail)
    if stratum == "multi":
        lab += ["multi:entry:%s" % case.get("entry"), "multi:columns:%d" % kinds["columns"], "multi:trivial_%s" % ("shared" if kinds["trivial_shared"] else "independent"),
                "multi:%s:%s" % (kinds["directed"].partition(":")[2] or "plain", outcome),
                "multi:group:%s" % kinds["directed"].partition(":")[0]]
    elif stratum == "real0":
        lab += ["real0:level:%d:%s" % (int(cf["level"]), outcome), "real0:column:%s" % case.get("table_column"),
                "real0:entry:%s" % case.get("entry"),
                "real0:near:%s:%s" % (kinds["near"].partition("+")[0] + ("+perturbed" if "+" in kinds["near"] else ""), octx),
                "real0:customised:%s" % kinds["custom"]]
    else:
        for k, kind in kinds.items():
            if k in ("tightness", "near", "victim"):
                continue
            lab.append("cell:%s:%s" % (key_class(k), kind))
        lab.append("restricting_encoder_cells:%s" % (nrestrict if nrestrict < 6 else "6+"))
    if "tightness" in kinds:
        lab.append("table:%s:%s" % (kinds["tightness"], outcome))
    if "victim" in kinds:
        lab.append("one_trivial:%s:%s" % (kinds["victim"], outcome))
    if stratum == "real":
        match = [b for b in range(23) if not H.perturbed_groups(cf["video_parameters"], b)]
        lab += ["real:level:%d" % int(cf["level"]), "real:base:%s" % (match[0] if match else "customised"),
                "real:near:%s:%s" % (kinds.get("near"), outcome if outcome != "raise" else "raise:" + str(detail))]
    nt = False
    if outcome == "raise":
        lab += ["outcome:raise", "raise:" + detail]
        nt = (bool(trivial_restricted) or (stratum in ("real", "real0") and kinds.get("near") not in (None, "none"))
              or (stratum == "multi" and kinds["directed"] != "plain"))
        if trivial_restricted:
            lab.append("raise_with_trivial_restricted")
    elif outcome == "accept":
        lab.append("outcome:accept")
        nt = nrestrict >= 2 or stratum in ("real", "real0", "multi")
        if trivial_restricted:
            col.count("note:accepted_although_trivial_cell_excludes_own_prediction")
    elif outcome == "unrepresentable":
        lab.append("outcome:unrepresentable_budget")
    elif outcome == "reject":
        lab.append("outcome:reject")
        e = detail
        col.fail("rejected:%s:%s" % (stratum, err_tag(e, full=False)), data,
                 "encoder produced a sequence for level %d (%s table, pattern %s) but the validator rejects it: %s: %s"
                 % (int(cf["level"]), {"main": "substituted", "multi": "substituted multi-column"}.get(stratum, "real"), case["pattern"],
                    type(e).__name__,
                    " ".join(e.explain().split())[:400]))
    else:
        lab.append("outcome:" + outcome)
        col.fail(col.crash_bucket(detail, outcome), data, "%s: %s: %s" % (outcome, type(detail).__name__, detail))
    col.case(key=key, nontrivial=nt, labels=lab,
             sample=lambda: {"config": data["config"], "stratum": stratum,
                             "column": [{k: v for k, v in cj.items() if v != "any"} for cj in as_columns(case["column"])],
                             "pattern": case["regex"], "outcome": outcome,
                             "detail": detail if isinstance(detail, (str, list)) else repr(detail)})


def as_columns(column):
    return column if isinstance(column, list) else ([column] if column else [])


def column_repr(column):
    return repr([sorted(cj.items(), key=lambda kv: kv[0]) for cj in as_columns(column)])


def cell_text(j):
    if j == "any":
        return "any"
    return "{%s}" % ",".join([str(v) for v in j.get("v", [])] + ["%d-%d" % tuple(r) for r in j.get("r", [])])


# ---------------------------------------------------------------------------
# big real levels (thorough, diagnostic): one level-64 and one level-65 stream


def big_real(level, col):
    from vc2_conformance.codec_features import CodecFeatures

    if level == 64:
        b, wi, depth, sx, sy, num, den, pcm = 13, 4, 2, 120, 270, 64, 1, 0
    else:
        b, wi, depth, sx, sy, num, den, pcm = 9, 1, 3, 80, 90, 243, 5, 0
    vp = H.base_vp(b)
    cf = CodecFeatures(name="c16big", level=Levels(level), profile=Profiles.low_delay, picture_coding_mode=PictureCodingModes(pcm),
                       video_parameters=vp, wavelet_index=WaveletFilters(wi), wavelet_index_ho=WaveletFilters(wi), dwt_depth=depth,
                       dwt_depth_ho=0, slices_x=sx, slices_y=sy, fragment_slice_count=0, lossless=False,
                       picture_bytes=num * sx * sy // den, quantization_matrix=None)
    case = dict(stratum="real", cf=cf, specs=[("constmid", "constmid", "constmid", 1)], column=None, kinds={}, pattern="real", regex=None)
    outcome, detail = run_encoder_and_validator(case)
    tag = {"raise": "encoder_raised:%s" % detail, "accept": "validator_accepted"}.get(outcome)
    if tag is None:
        tag = ("validator_rejected:" + err_tag(detail)) if outcome == "reject" else "%s:%s" % (outcome, type(detail).__name__)
    col.case(key=("big", level), nontrivial=False, labels=["stratum:diag", "diag:real_level_%d:%s" % (level, tag)])


# ---------------------------------------------------------------------------


def shards(tier):
    if tier == "quick":
        return ([("main", k) for k in range(10)] + [("multi", k) for k in range(3)] + [("real0", k) for k in range(2)]
                + [("multih", 0), ("real0h", 0), ("diag", 0)] + [("real", k) for k in range(2)])
    # longest shards first (the pool hands shards out in order): full-size real streams, then the slow strata
    return ([("big", 64), ("big", 65)] + [("real2", k) for k in range(4)] + [("real", k) for k in range(8)]
            + [("multi", k) for k in range(8)] + [("real0", k) for k in range(6)]
            + [("main", k) for k in range(40)] + [("multih", k) for k in range(4)]
            + [("real0h", k) for k in range(4)] + [("diag", k) for k in range(6)])


def run_shard(spec, ctx):
    kind, k = spec
    if kind == "main":
        run_given(cases("main"), body, ctx, ctx.pick(250, 1500))
    elif kind == "multi":
        run_given(multi_cases("make_sequence"), body, ctx, ctx.pick(150, 1000))
    elif kind == "multih":
        run_given(multi_cases("header_unit"), body, ctx, ctx.pick(2000, 15000))
    elif kind == "real0":
        run_given(real0_cases("make_sequence"), body, ctx, ctx.pick(40, 400))
    elif kind == "real0h":
        run_given(real0_cases("header_unit"), body, ctx, ctx.pick(5000, 15000))
    elif kind == "diag":
        run_given(cases("diag"), body, ctx, ctx.pick(200, 600))
    elif kind == "real":
        run_given(real_cases((1,), max_base=ctx.pick(2, 4)), body, ctx, ctx.pick(10, 100))
    elif kind == "real2":
        run_given(real_cases((2,)), body, ctx, 6, shrink=False)
    else:
        big_real(k, ctx.col)


def replay(data, col):
    body(case_from_json(data), col)
