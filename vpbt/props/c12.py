"""C12 — quantisation reconstructs within one step and distinguishes indices."""

import random

from hypothesis import strategies as st

from vpbt.core import run_given

ID = "C12"
LEVEL = "exploration"
RULE = (
    "Enumerated part: every qindex 0..255 (thorough 0..1023) x every coefficient in "
    "[-2*qf-2, 2*qf+2] capped at +-B (B=3000 quick / 40000 thorough) plus the values "
    "k*qf/4 +- {0,1,2} for k in 0..40, and monotonicity of quant_factor / inverse_quant(1,.) "
    "over 0..2047 (thorough 0..8191). Generated part: Hypothesis draws (qindex 0..255 or up to 1023, "
    "coefficient up to 2^200 in magnitude, incl. powers of two +-1). Oracle: own recomputation of the "
    "quantisation factor from the standard's table (exact rational 2^(q/4) rounded as in 13.3.2), sign / "
    "|r-c|*4 < qf / q==0 identity. Non-trivial = a case with coefficient != 0 and qindex >= 1 where the quantised "
    "value is non-zero (so dequantisation arithmetic is exercised); distinct by (qindex, coefficient)."
)
ASSUMPTIONS = [
    "The reconstruction bound is checked against quant_factor as recomputed by the harness from the "
    "four rational constants of SMPTE ST 2042-1 13.3.2, cross-checked against the repository's quant_factor.",
]


def EXHAUSTIVE(tier):
    return False


def ref_quant_factor(index):
    # written independently of the repository: same table as the standard
    base = 1 << (index // 4)
    r = index % 4
    if r == 0:
        return 4 * base
    num, add, den = {1: (503829, 52958, 105917), 2: (665857, 58854, 117708), 3: (440253, 32722, 65444)}[r]
    return (num * base + add) // den


def shards(tier):
    n = 16
    out = [("enum", k, n) for k in range(n)]
    out += [("mono", 0, 1)]
    out += [("hyp", k, 8) for k in range(8)]
    return out


def check_one(c, q, col, Q):
    fq = Q.forward_quant(c, q)
    r = Q.inverse_quant(fq, q)
    qf = ref_quant_factor(q)
    data = {"c": c, "q": q}
    if Q.quant_factor(q) != qf:
        col.fail("quant_factor-differs", data, "quant_factor(%d)=%d, standard table gives %d" % (q, Q.quant_factor(q), qf))
    if not isinstance(r, int) or not isinstance(fq, int):
        col.fail("non-int", data, "non-integer result %r %r" % (fq, r))
        return False
    if r != 0 and (r > 0) != (c > 0):
        col.fail("sign", data, "c=%d q=%d -> quantised %d -> %d: sign changed" % (c, q, fq, r))
    if not 4 * abs(r - c) < qf:
        col.fail("bound", data, "c=%d q=%d -> %d -> %d: |r-c|=%d not < qf/4=%d/4" % (c, q, fq, r, abs(r - c), qf))
    if q == 0 and r != c:
        col.fail("q0-lossy", data, "c=%d at qindex 0 reconstructs as %d" % (c, r))
    if c == 0 and (fq != 0 or r != 0):
        col.fail("zero", data, "0 quantises to %d -> %d" % (fq, r))
    return fq != 0 and q >= 1


def run_shard(spec, ctx):
    from vc2_conformance.pseudocode import quantization as Q
    import importlib
    LQ = importlib.import_module("vc2_conformance.test_cases.decoder.lossless_quantization")

    col = ctx.col
    kind, k, n = spec
    if kind == "enum":
        qmax = ctx.pick(255, 1023)
        cap = ctx.pick(3000, 40000)
        sampled = 0
        for q in range(qmax + 1):
            if q % n != k:
                continue
            qf = ref_quant_factor(q)
            hi = min(2 * qf + 2, cap)
            values = set(range(-hi, hi + 1))
            for m in range(0, 41):
                base = (m * qf) // 4
                for d in (-2, -1, 0, 1, 2):
                    values.add(base + d)
                    values.add(-(base + d))
            nt = 0
            for c in values:
                if check_one(c, q, col, Q):
                    nt += 1
                    col.nontrivial.add((q << 80) ^ (c & ((1 << 80) - 1)))
            col.evaluations += len(values)
            col.count("enumerated_pairs", len(values))
            if sampled < 3 and q > 0:
                sampled += 1
                c = sorted(values)[len(values) // 3]
                col.sample({"qindex": q, "coeff": c, "quantised": Q.forward_quant(c, q),
                            "dequantised": Q.inverse_quant(Q.forward_quant(c, q), q), "quant_factor": qf})
    elif kind == "mono":
        top = ctx.pick(2047, 8191)
        prev_f = None
        prev_i = None
        for q in range(top + 1):
            f = Q.quant_factor(q)
            i1 = Q.inverse_quant(1, q)
            if prev_f is not None and not f > prev_f:
                col.fail("factor-not-increasing", {"q": q}, "quant_factor(%d)=%d <= quant_factor(%d)=%d" % (q, f, q - 1, prev_f))
            if q >= 7 and q - 1 >= 7 and not i1 > prev_i:
                col.fail("inverse-one-not-increasing", {"q": q}, "inverse_quant(1,%d)=%d <= inverse_quant(1,%d)=%d" % (q, i1, q - 1, prev_i))
            prev_f, prev_i = f, i1
            col.case(key=("mono", q), nontrivial=True, labels=("monotonicity_index",))
        if LQ.MINIMUM_DISTINCT_QINDEX != 7:
            # property names 7; any larger value is also safe, smaller is not
            vals = [Q.inverse_quant(1, q) for q in range(LQ.MINIMUM_DISTINCT_QINDEX, 300)]
            if len(set(vals)) != len(vals):
                col.fail("minimum-distinct-qindex", {"q": LQ.MINIMUM_DISTINCT_QINDEX},
                         "MINIMUM_DISTINCT_QINDEX=%d does not give distinct dequantised 1s" % LQ.MINIMUM_DISTINCT_QINDEX)
        # what the lossless_quantization test case relies on: for any matrix the
        # chosen qindex gives pairwise different factors for different matrix values
        rnd = random.Random(ctx.seed)
        for _ in range(ctx.pick(300, 3000)):
            vals = [rnd.randrange(0, 40) for _ in range(rnd.randrange(1, 12))]
            qm = {0: {"LL": vals[0]}}
            for i, v in enumerate(vals[1:]):
                qm.setdefault(1 + i // 3, {})[("HL", "LH", "HH")[i % 3]] = v
            qi = LQ.compute_qindex_with_distinct_quant_factors(qm)
            outs = {}
            for v in set(vals):
                outs.setdefault(Q.inverse_quant(1, max(qi - v, 0)), []).append(v)
            col.case(key=("lq", tuple(vals)), nontrivial=len(set(vals)) > 1, labels=("lossless_quantization_qindex",))
            if any(len(v) > 1 for v in outs.values()):
                col.fail("lossless-qindex-collision", {"matrix_values": vals},
                         "qindex %d gives equal dequantised 1 for matrix values %r" % (qi, outs))
    else:
        big = st.one_of(
            st.integers(-(1 << 200), 1 << 200),
            st.integers(-(1 << 40), 1 << 40),
            st.builds(lambda e, d, s: s * ((1 << e) + d), st.integers(0, 200), st.integers(-3, 3), st.sampled_from([-1, 1])),
        )
        qs = st.one_of(st.integers(0, 255), st.integers(0, 1023))
        # coefficient near a multiple of the quantisation step
        near = st.builds(lambda q, m, d, s: (q, s * max(0, (m * ref_quant_factor(q)) // 4 + d)),
                         qs, st.integers(0, 1 << 70), st.integers(-3, 3), st.sampled_from([-1, 1]))
        strat = st.one_of(st.tuples(qs, big), near)

        def body(case, col):
            q, c = case
            nt = check_one(c, q, col, Q)
            col.case(key=(q, c), nontrivial=nt, labels=("generated_pair", "big" if abs(c) > (1 << 64) else "small"),
                     sample=lambda: {"qindex": q, "coeff": c, "dequantised": Q.inverse_quant(Q.forward_quant(c, q), q)})

        run_given(strat, body, ctx, ctx.pick(4000, 150000))


def replay(data, col):
    from vc2_conformance.pseudocode import quantization as Q
    import importlib
    LQ = importlib.import_module("vc2_conformance.test_cases.decoder.lossless_quantization")

    if "c" in data:
        check_one(int(data["c"]), int(data["q"]), col, Q)
        col.evaluations += 1
    elif "q" in data:
        q = int(data["q"])
        col.evaluations += 1
        if q >= 1 and not Q.quant_factor(q) > Q.quant_factor(q - 1):
            col.fail("factor-not-increasing", data, "quant_factor not increasing at %d" % q)
        if q >= 8 and not Q.inverse_quant(1, q) > Q.inverse_quant(1, q - 1):
            col.fail("inverse-one-not-increasing", data, "inverse_quant(1,.) not increasing at %d" % q)
    elif "matrix_values" in data:
        vals = data["matrix_values"]
        qm = {0: {"LL": vals[0]}}
        for i, v in enumerate(vals[1:]):
            qm.setdefault(1 + i // 3, {})[("HL", "LH", "HH")[i % 3]] = v
        qi = LQ.compute_qindex_with_distinct_quant_factors(qm)
        outs = {}
        for v in set(vals):
            outs.setdefault(Q.inverse_quant(1, max(qi - v, 0)), []).append(v)
        col.evaluations += 1
        if any(len(v) > 1 for v in outs.values()):
            col.fail("lossless-qindex-collision", data, "collision %r" % outs)
