"""C20 — bit-level readers and writers agree on every primitive.

Three parts (see RULE):

  machine   Hypothesis RuleBasedStateMachine over BitstreamWriter operations; the
            resulting bytes are read back with BitstreamReader AND with the decoder's
            State based functions, both judged by the harness' own list-of-bits model.
  exh       exhaustive enumeration: every file of 0, 1 bytes and every 2 byte file
            whose last (16-L) bits are zero x block lengths x read programs, both
            readers against the model.
  len       exp_golomb_length / signed_exp_golomb_length against the harness' own
            coder and against what the writer really writes, integers to 2^300.

The model (vpbt/oracles/bitmodel.py) never calls the code under test: a Python
list of bits, a position, a bounded-block counter, and an exp-Golomb coder written
from the text of SMPTE ST 2042-1 annex A.4.
"""

from collections import Counter
from io import BytesIO

from bitarray import bitarray
from hypothesis import strategies as st

from vpbt.core import Collector, run_given
from vpbt.oracles.bitmodel import (ModelEOF, ReadModel, WriteModel, bits_to_int, dec_sint, dec_uint, enc_nbits, enc_sint,
                                   enc_uint, offset_of, pack, tell_of, unpack)

ID = "C20"
LEVEL = "exploration"
RULE = (
    "long: files of 64 KiB - 256 KiB of drawn bytes read to the end by both readers (drawn widths near every 64 KiB boundary, "
    "read_bytes strides elsewhere) and after seeks to drawn positions, values and tell() against the bytes themselves. "
    "rewind: exhaustive -- every prefix of 1-7 bits, seek back to every bit of that unfinished byte, every overwrite that stays in "
    "the byte: the file must hold zeros + the new bits (documented: seeking to a byte clears the bits already set in it). "
    "machine: a Hypothesis RuleBasedStateMachine (and, for volume, the same operation grammar driven by "
    "random.Random seeded from the shard seed) draws up to 30 (thorough 50) writer operations "
    "(write_bit/nbits/uint_lit/bytes/bitarray/uint/sint with in-range, maximal, too-large, negative and "
    "too-long values up to 2^300, bounded_block_begin with lengths -3..80, bounded_block_end followed by "
    "the unused-bit padding as serdes writes it, flush, and the autofill pattern seek-back/overwrite whole "
    "bytes/seek to the recorded tell); values inside a block are usually refitted so that bits past the end "
    "are 1 (else ValueError is expected and the machine stops). After every operation writer.tell() is "
    "compared with the model; at the end the file bytes are compared with the model bits and every "
    "operation is mirrored on BitstreamReader and on the decoder State functions (read_*b + flush_inputb in "
    "blocks of length >= 0), comparing value and tell() each time, plus the viewer's seek(last_tell)+"
    "read_bitarray re-read and late seek-and-re-read. A machine is non-trivial when it performed >= 4 "
    "accepted writes of >= 2 kinds and at least one of: bits dangling past a block end, an out-of-range "
    "rejection, a reader or writer seek, a rejected 0 past the end; distinct by hash of the executed "
    "operation list. exh: every file of 0 and 1 bytes and every 2-byte file with the last 16-L bits zero "
    "(L = 14 quick / 16 thorough; i.e. every bit string of length <= L as flush() pads it) x start offset "
    "0 or 3 (alternating per program and per file) x block length 0..bits+2 (and -2,-1 on BitstreamReader "
    "only) x 12 read programs of uint/sint/bool/nbits inside the block followed by the block end, the unused bits and two reads "
    "outside; each (file, offset, length, program) is one evaluation; the distinct count for this part is "
    "the number of (file, block length) pairs for which some program consumed at least one real bit in the "
    "block AND read at least one bit past its end. len: enumerated 0..4096 and 2^k+-{0,1,2} for k<=300 "
    "plus Hypothesis integers to +-2^300; every value counts as non-trivial when |v| >= 1 (a code longer "
    "than the single stop bit), distinct by value."
)
ASSUMPTIONS = [
    "Agreement of the decoder's State-based reader with BitstreamReader inside bounded blocks is required "
    "for block lengths >= 0 only (the only lengths the validator's callers can produce); negative lengths "
    "are checked on BitstreamReader/BitstreamWriter against the model.",
    "After a write is rejected with ValueError for a 0 past the end of a bounded block the writer is not "
    "used any further (as in serialisation); only the bits written before that operation are checked.",
    "BitstreamWriter.seek is exercised in the pattern of its only caller (vc2_autofill): byte aligned seek "
    "back, whole bytes overwritten, flush, seek to the recorded end tell(); when that tell is mid-byte the "
    "documented clearing of the bits already written in that byte is what the model expects.",
    "Mirrored decoder reads of bytes/bitarray/nbits inside a bounded block are made of repeated read_bitb "
    "calls because the decoder has no bounded multi-bit primitive.",
    "End of stream: BitstreamReader raising EOFError and the decoder raising UnexpectedEndOfStream at the "
    "same operation counts as agreement; state after such an exception is not compared.",
]


def EXHAUSTIVE(tier):
    # the exhaustive box is complete, but the property quantifies over unbounded inputs
    return False


# ---------------------------------------------------------------------------
# operations: plain JSON dicts
#   {"op": "bit", "v": 0|1|true|false}
#   {"op": "nbits", "n": bits, "v": int}       {"op": "uint_lit", "n": bytes, "v": int}
#   {"op": "bytes", "n": bytes, "v": hex, "ba": bool}     {"op": "bitarray", "n": bits, "v": "0101"}
#   {"op": "uint", "v": int}  {"op": "sint", "v": int}
#   {"op": "begin", "length": int}  {"op": "end", "pad": "0101"}  {"op": "flush"}
#   {"op": "patch", "p": int, "m": int, "v": int, "bytes": bool}
# write ops may carry "reseek": bool (viewer re-read after the mirrored read) and "late": bool

WRITE_KINDS = ("bit", "nbits", "uint_lit", "bytes", "bitarray", "uint", "sint")


def encode_op(op):
    """-> (bits or None when the value is out of range, expected read-back value)."""
    k = op["op"]
    v = op["v"]
    if k == "bit":
        return [1 if v else 0], (1 if v else 0)
    if k == "nbits" or k == "uint_lit":
        n = op["n"] * (8 if k == "uint_lit" else 1)
        if v < 0 or v >= (1 << n):
            return None, None
        return enc_nbits(n, v), v
    if k == "bytes":
        raw = bytes.fromhex(v)
        if len(raw) > op["n"]:
            return None, None
        full = raw + b"\x00" * (op["n"] - len(raw))
        return unpack(full), full
    if k == "bitarray":
        if len(v) > op["n"]:
            return None, None
        full = v + "0" * (op["n"] - len(v))
        return [1 if c == "1" else 0 for c in full], full
    if k == "uint":
        if v < 0:
            return None, None
        return enc_uint(v), v
    if k == "sint":
        return enc_sint(v), v
    raise ValueError(k)


def fit_op(op, rem):
    """Return op with its value changed so that all bits beyond `rem` are ones."""
    enc, _ = encode_op(op)
    if enc is None or rem is None:
        return op
    r = max(0, rem)
    if len(enc) <= r or all(enc[r:]):
        return op
    k = op["op"]
    new = dict(op)
    forced = enc[:r] + [1] * (len(enc) - r)
    if k == "bit":
        new["v"] = True if isinstance(op["v"], bool) else 1
    elif k in ("nbits", "uint_lit"):
        new["v"] = bits_to_int(forced)
    elif k == "bytes":
        new["v"] = pack(forced).hex()
    elif k == "bitarray":
        new["v"] = "".join(str(b) for b in forced)
    else:
        src = iter(enc[:r])

        def nb():
            return next(src, 1)

        new["v"] = dec_uint(nb) if k == "uint" else dec_sint(nb)
    return new


class Sim(object):
    """Applies operations to a BitstreamWriter and to the model, then reads back."""

    def __init__(self):
        from vc2_conformance.bitstream.io import BitstreamWriter

        self.f = BytesIO()
        self.w = BitstreamWriter(self.f)
        self.m = WriteModel()
        self.ops = []
        self.log = []
        self.failures = []  # (bucket, message)
        self.poisoned = False
        self.poison_start = None
        self.stats = Counter()
        self.finished = False

    def fail(self, bucket, msg):
        self.failures.append((bucket, "%s (after %d ops)" % (msg, len(self.ops))))

    # -- write phase ----------------------------------------------------
    def apply(self, op):
        if self.poisoned or self.finished:
            self.stats["skipped"] += 1
            return
        k = op["op"]
        m = self.m
        if k == "begin" and m.rem is not None:
            return
        if k == "end" and m.rem is None:
            return
        if k == "patch" and (m.rem is not None or m.pos < 8):
            return
        self.ops.append(op)
        try:
            if k in WRITE_KINDS:
                self._write(op)
            elif k == "begin":
                self._begin(op)
            elif k == "end":
                self._end(op)
            elif k == "flush":
                self._flush()
            elif k == "patch":
                self._patch(op)
            else:
                raise ValueError(k)
        except _Abort:
            self._stop()
        except Exception as e:
            # an exception from the code under test that no branch above expected
            self.fail(Collector().crash_bucket(e, "write-crash:" + k), "%r raised %r" % (op, e))
            self._stop()

    def _stop(self):
        self.poisoned = True
        if self.poison_start is None:
            self.poison_start = 0
        if self.failures:
            # a failure in the write phase: the read-back would only repeat it
            self.finished = True

    def _check_tell(self, what):
        got = self.w.tell()
        if got != tell_of(self.m.pos):
            self.fail("writer-tell:" + what, "writer.tell()=%r after %s, model position %d = %r"
                      % (got, what, self.m.pos, tell_of(self.m.pos)))
            raise _Abort()

    def _call(self, op):
        from bitarray import bitarray as BA

        w = self.w
        k = op["op"]
        v = op["v"]
        if k == "bit":
            w.write_bit(v)
        elif k == "nbits":
            w.write_nbits(op["n"], v)
        elif k == "uint_lit":
            w.write_uint_lit(op["n"], v)
        elif k == "bytes":
            raw = bytes.fromhex(v)
            w.write_bytes(op["n"], bytearray(raw) if op.get("ba") else raw)
        elif k == "bitarray":
            w.write_bitarray(op["n"], BA(v))
        elif k == "uint":
            w.write_uint(v)
        elif k == "sint":
            w.write_sint(v)

    def _write(self, op, pad=False):
        from vc2_conformance.bitstream.exceptions import OutOfRangeError

        k = op["op"]
        m = self.m
        w = self.w
        enc, exp = encode_op(op)
        start = m.pos
        rem_before = m.rem
        tell0 = w.tell()
        if enc is None:
            self.stats["oor"] += 1
            try:
                self._call(op)
            except OutOfRangeError:
                pass
            except Exception as e:
                self.fail("oor-wrong-exception:" + k, "%r: expected OutOfRangeError, got %r" % (op, e))
                raise _Abort()
            else:
                self.fail("oor-accepted:" + k, "%r is out of range but was written without OutOfRangeError" % (op,))
                self.poison_start = start
                raise _Abort()
            if w.tell() != tell0:
                self.fail("oor-moved:" + k, "%r raised OutOfRangeError but tell() moved %r -> %r" % (op, tell0, w.tell()))
                self.poison_start = start
                raise _Abort()
            if rem_before is not None and max(0, w.bits_remaining) != max(0, rem_before):
                self.fail("oor-consumed-block:" + k, "%r raised OutOfRangeError but bits_remaining changed to %r"
                          % (op, w.bits_remaining))
            return
        ok = m.put_all(enc)
        raised = None
        try:
            self._call(op)
        except Exception as e:  # judged below
            raised = e
        if not ok:
            self.stats["zero_past_end"] += 1
            self.poison_start = start
            if raised is None:
                self.fail("zero-past-end-accepted:" + k,
                          "%r puts a 0 past the end of the bounded block (%r bits were left) but no ValueError"
                          % (op, rem_before))
            elif isinstance(raised, OutOfRangeError) or not isinstance(raised, ValueError):
                self.fail("zero-past-end-wrong-exception:" + k, "%r: expected ValueError, got %r" % (op, raised))
            raise _Abort()
        if raised is not None:
            self.poison_start = start
            self.fail("write-raised:%s:%s" % (k, type(raised).__name__),
                      "%r is in range (block bits left %r) but raised %r" % (op, rem_before, raised))
            raise _Abort()
        self.poison_start = start
        self._check_tell(k)
        self.poison_start = None
        if m.rem is not None and max(0, w.bits_remaining) != max(0, m.rem):
            self.fail("writer-bits-remaining:" + k, "bits_remaining=%r after %r, model %r" % (w.bits_remaining, op, m.rem))
        dangling = len(enc) - (m.pos - start)
        if dangling:
            self.stats["dangling_writes"] += 1
        self.stats["writes"] += 1
        self.stats["kind:" + k] += 1
        self.log.append(dict(kind=k, n=op.get("n"), exp=exp, isbool=isinstance(op["v"], bool), start=start, end=m.pos,
                             inblk=rem_before is not None, rem_after=m.rem, dangling=dangling, pad=pad,
                             reseek=bool(op.get("reseek")), late=bool(op.get("late")), dirty=False))

    def _begin(self, op):
        length = op["length"]
        try:
            self.w.bounded_block_begin(length)
        except Exception as e:
            self.fail("begin-raised", "bounded_block_begin(%d) raised %r" % (length, e))
            raise _Abort()
        self.m.rem = length
        if self.w.bits_remaining != length:
            self.fail("begin-bits-remaining", "bits_remaining=%r after bounded_block_begin(%d)" % (self.w.bits_remaining, length))
        self.stats["blocks"] += 1
        if length <= 0:
            self.stats["blocks_nonpositive"] += 1
        self.log.append(dict(kind="begin", length=length))

    def _end(self, op):
        m = self.m
        unused = max(0, m.rem)
        try:
            got = self.w.bounded_block_end()
        except Exception as e:
            self.fail("end-raised", "bounded_block_end() raised %r" % (e,))
            raise _Abort()
        m.rem = None
        if got != unused:
            self.fail("writer-block-end-unused", "bounded_block_end() returned %r, model has %d unused bits" % (got, unused))
        if self.w.bits_remaining is not None:
            self.fail("end-bits-remaining", "bits_remaining=%r after bounded_block_end()" % (self.w.bits_remaining,))
        self._check_tell("end")
        self.log.append(dict(kind="end", unused=unused, pos=m.pos))
        # the unused bits are written after the block, exactly as SerDes.bounded_block_end does
        self._write({"op": "bitarray", "n": unused, "v": op.get("pad", "")[:unused]}, pad=True)

    def _file_check(self, what):
        data = self.f.getvalue()
        want = pack(self.m.bits)
        if data != want:
            self.fail("file-bytes:" + what, "file holds %s, model bits give %s" % (data.hex(), want.hex()))
            raise _Abort()

    def _flush(self):
        self.w.flush()
        self._check_tell("flush")
        self._file_check("flush")
        self.stats["flushes"] += 1

    def _patch(self, op):
        m = self.m
        w = self.w
        full = m.pos // 8
        p = op["p"] % full
        n = 1 + (op["m"] - 1) % min(4, full - p)
        v = op["v"] % (1 << (8 * n))
        end_tell = w.tell()
        w.seek(p)
        if w.tell() != (p, 7):
            self.fail("writer-seek-tell", "tell()=%r after seek(%d)" % (w.tell(), p))
            raise _Abort()
        if op.get("bytes"):
            w.write_bytes(n, v.to_bytes(n, "big"))
        else:
            w.write_uint_lit(n, v)
        if w.tell() != (p + n, 7):
            self.fail("writer-seek-tell", "tell()=%r after seek(%d) and writing %d bytes" % (w.tell(), p, n))
            raise _Abort()
        w.flush()
        w.seek(*end_tell)
        m.bits[8 * p:8 * (p + n)] = enc_nbits(8 * n, v)
        ranges = [(8 * p, 8 * (p + n))]
        if m.pos % 8:
            # documented: seeking to a byte clears the bits already set in it
            lo = 8 * (m.pos // 8)
            for i in range(lo, m.pos):
                m.bits[i] = 0
            ranges.append((lo, m.pos))
        for e in self.log:
            if "start" in e and any(e["start"] < hi and lo < e["end"] for lo, hi in ranges):
                e["dirty"] = True
        self._check_tell("patch")
        self.stats["patches"] += 1

    # -- read-back phase -------------------------------------------------
    def finish(self):
        if self.finished:
            return
        if not self.poisoned and self.m.rem is not None:
            self.apply({"op": "end", "pad": ""})
        self.finished = True
        try:
            self.w.flush()
        except Exception as e:
            self.fail("flush-raised", "final flush raised %r" % (e,))
            return
        data = self.f.getvalue()
        if self.poisoned:
            n = self.poison_start or 0
            if unpack(data)[:n] != self.m.bits[:n]:
                self.fail("file-bytes:prefix", "first %d bits of file %s differ from model %s" % (n, data.hex(), pack(self.m.bits[:n]).hex()))
                return
        else:
            try:
                self._file_check("final")
            except _Abort:
                return
        for side in (self._readback_reader, self._readback_decoder):
            try:
                side(data)
            except _Abort:
                pass
            except Exception as e:  # an exception from the code under test that no branch expected
                import traceback
                self.fail("readback-crash:%s:%s" % (side.__name__, type(e).__name__), traceback.format_exc()[-600:])

    def _cmp(self, side, e, got, exp, tell, want_pos):
        if got != exp:
            self.fail("%s-value:%s" % (side, e["kind"]), "%s read %r for %s written at bit %d..%d, expected %r"
                      % (side, got, e["kind"], e["start"], e["end"], exp))
            raise _Abort()
        if tell != tell_of(want_pos):
            self.fail("%s-tell:%s" % (side, e["kind"]), "%s tell()=%r after %s at bit %d, model %r"
                      % (side, tell, e["kind"], e["start"], tell_of(want_pos)))
            raise _Abort()

    def _reader_read(self, r, e):
        k = e["kind"]
        if e["dirty"]:
            return r.read_nbits(e["end"] - e["start"]), bits_to_int(self.m.bits[e["start"]:e["end"]])
        if k == "bit":
            return r.read_bit(), e["exp"]
        if k == "nbits":
            return r.read_nbits(e["n"]), e["exp"]
        if k == "uint_lit":
            return r.read_uint_lit(e["n"]), e["exp"]
        if k == "bytes":
            return r.read_bytes(e["n"]), e["exp"]
        if k == "bitarray":
            return r.read_bitarray(e["n"]), bitarray(e["exp"])
        if k == "uint":
            return r.read_uint(), e["exp"]
        if k == "sint":
            return r.read_sint(), e["exp"]
        raise ValueError(k)

    def _readback_reader(self, data):
        from vc2_conformance.bitstream.io import BitstreamReader

        r = BitstreamReader(BytesIO(data))
        m = self.m
        if r.tell() != (0, 7):
            self.fail("reader-tell:init", "fresh reader tell()=%r" % (r.tell(),))
        for e in self.log:
            k = e["kind"]
            if k == "begin":
                r.bounded_block_begin(e["length"])
                continue
            if k == "end":
                got = r.bounded_block_end()
                if got != e["unused"]:
                    self.fail("reader-block-end-unused", "reader.bounded_block_end() returned %r, model %d" % (got, e["unused"]))
                    raise _Abort()
                continue
            t0 = r.tell()
            got, exp = self._reader_read(r, e)
            self._cmp("reader", e, got, exp, r.tell(), e["end"])
            if e["inblk"] and max(0, r.bits_remaining) != max(0, e["rem_after"]):
                self.fail("reader-bits-remaining", "reader.bits_remaining=%r after %s, model %r" % (r.bits_remaining, k, e["rem_after"]))
                raise _Abort()
            if e["reseek"]:
                # the bitstream viewer's pattern
                self.stats["reader_reseeks"] += 1
                r.seek(*t0)
                raw = r.read_bitarray(e["end"] - e["start"])
                want = bitarray(m.bits[e["start"]:e["end"]])
                if raw != want or r.tell() != tell_of(e["end"]):
                    self.fail("reader-reseek:" + ("block" if e["inblk"] else "plain"),
                              "seek(%r)+read_bitarray(%d) gave %s at %r, model %s at %r (inside block: %s, dangling %d)"
                              % (t0, e["end"] - e["start"], raw.to01(), r.tell(), want.to01(), tell_of(e["end"]), e["inblk"], e["dangling"]))
                    raise _Abort()
                if e["inblk"] and max(0, r.bits_remaining) != max(0, e["rem_after"]):
                    self.fail("reader-reseek-bits-remaining", "bits_remaining=%r after re-read, model %r" % (r.bits_remaining, e["rem_after"]))
                    raise _Abort()
        if self.poisoned:
            return
        for e in self.log:
            if e.get("late") and not e["dirty"] and not e["inblk"] and not e["pad"]:
                self.stats["reader_late_seeks"] += 1
                r.seek(*tell_of(e["start"]))
                if r.tell() != tell_of(e["start"]):
                    self.fail("reader-seek-tell", "tell()=%r after seek(%r)" % (r.tell(), tell_of(e["start"])))
                    raise _Abort()
                got, exp = self._reader_read(r, e)
                self._cmp("reader-after-seek", e, got, exp, r.tell(), e["end"])
        r.seek(*tell_of(m.pos))
        if r.tell() != tell_of(m.pos):
            self.fail("reader-seek-tell", "tell()=%r after seek(%r)" % (r.tell(), tell_of(m.pos)))
            raise _Abort()
        tail = (-m.pos) % 8
        if r.read_nbits(tail) != 0:
            self.fail("reader-tail", "bits after the last written bit are not zero")
        try:
            r.read_bit()
        except EOFError:
            pass
        else:
            self.fail("reader-eof", "no EOFError after the last byte")

    def _decoder_read(self, D, state, e, inblk):
        k = e["kind"]
        if e["dirty"]:
            n = e["end"] - e["start"]
            exp = bits_to_int(self.m.bits[e["start"]:e["end"]])
            if inblk:
                return bits_to_int([D.read_bitb(state) for _ in range(n)]), exp
            return D.read_nbits(state, n), exp
        exp = e["exp"]
        nbits = None
        if k == "bit":
            if e["isbool"]:
                return (D.read_boolb(state) if inblk else D.read_bool(state)), bool(exp)
            return (D.read_bitb(state) if inblk else D.read_bit(state)), exp
        if k == "uint":
            return (D.read_uintb(state) if inblk else D.read_uint(state)), exp
        if k == "sint":
            return (D.read_sintb(state) if inblk else D.read_sint(state)), exp
        if k == "nbits":
            nbits = e["n"]
        elif k == "uint_lit":
            nbits = 8 * e["n"]
            if not inblk:
                return D.read_uint_lit(state, e["n"]), exp
        elif k == "bytes":
            nbits = 8 * e["n"]
            exp = int.from_bytes(exp, "big")
        elif k == "bitarray":
            nbits = e["n"]
            exp = int(exp, 2) if exp else 0
        if inblk:
            return bits_to_int([D.read_bitb(state) for _ in range(nbits)]), exp
        return D.read_nbits(state, nbits), exp

    def _readback_decoder(self, data):
        from vc2_conformance.pseudocode.state import State
        from vc2_conformance.decoder import io as D
        from vc2_conformance.decoder.exceptions import UnexpectedEndOfStream

        state = State()
        D.init_io(state, BytesIO(data))
        if D.tell(state) != (0, 7):
            self.fail("decoder-tell:init", "fresh decoder tell()=%r" % (D.tell(state),))
        inblk = False
        skipblk = False
        skip_pad = False
        for e in self.log:
            k = e["kind"]
            if k == "begin":
                if e["length"] >= 0:
                    state["bits_left"] = e["length"]
                    inblk = True
                else:
                    skipblk = True  # domain decision: negative lengths are not compared on the decoder
                continue
            if k == "end":
                if skipblk:
                    skipblk = False
                else:
                    D.flush_inputb(state)
                    inblk = False
                    skip_pad = True
                    if D.tell(state) != tell_of(e["pos"] + e["unused"]):
                        self.fail("decoder-flush-inputb", "decoder tell()=%r after flush_inputb, block ends at %r"
                                  % (D.tell(state), tell_of(e["pos"] + e["unused"])))
                        raise _Abort()
                continue
            if skipblk:
                continue
            if skip_pad:
                skip_pad = False
                if e["pad"]:
                    continue
            got, exp = self._decoder_read(D, state, e, inblk)
            if type(got) is not type(exp) and isinstance(exp, bool):
                self.fail("decoder-value:bool-type", "read_bool returned %r" % (got,))
            self._cmp("decoder", e, got, exp, D.tell(state), e["end"])
        if self.poisoned:
            return
        D.byte_align(state)
        want = tell_of(self.m.pos + ((-self.m.pos) % 8))
        if D.tell(state) != want:
            self.fail("decoder-byte-align", "decoder tell()=%r after byte_align, expected %r" % (D.tell(state), want))
        if not D.is_end_of_stream(state):
            self.fail("decoder-eof", "decoder not at end of stream after the last byte")
        try:
            D.read_bit(state)
        except UnexpectedEndOfStream:
            pass
        else:
            self.fail("decoder-eof", "no UnexpectedEndOfStream after the last byte")


class _Abort(Exception):
    pass


def run_ops(ops):
    sim = Sim()
    for op in ops:
        sim.apply(op)
    sim.finish()
    return sim


def reduce_ops(ops, bucket, budget=160):
    """Bounded delta debugging over the operation list."""

    def fails(cand):
        try:
            return bucket in set(b for b, _ in run_ops(cand).failures)
        except Exception:
            return False

    cur = list(ops)
    n = 2
    tries = 0
    while len(cur) >= 2 and tries < budget:
        chunk = max(1, len(cur) // n)
        reduced = False
        for i in range(0, len(cur), chunk):
            cand = cur[:i] + cur[i + chunk:]
            tries += 1
            if cand and fails(cand):
                cur = cand
                n = max(n - 1, 2)
                reduced = True
                break
            if tries >= budget:
                break
        if not reduced:
            if chunk == 1:
                break
            n = min(len(cur), n * 2)
    return cur


def record_machine(sim, col, prefix=""):
    """Bookkeeping + failure recording for one finished machine."""
    s = sim.stats
    kinds = sum(1 for k in WRITE_KINDS if s["kind:" + k])
    seeks = s["reader_reseeks"] + s["reader_late_seeks"] + s["patches"]
    labels = ["machine", prefix + "machine_total"] if prefix else ["machine", "hypothesis_machine_total"]
    if s["blocks"]:
        labels.append("machine_with_bounded_block")
    if s["blocks_nonpositive"]:
        labels.append("machine_with_zero_or_negative_block")
    if s["dangling_writes"]:
        labels.append("machine_with_bits_past_block_end")
    if s["oor"]:
        labels.append("machine_with_out_of_range_value")
    if s["zero_past_end"]:
        labels.append("machine_with_rejected_zero_past_end")
    if seeks:
        labels.append("machine_with_seek")
    if s["patches"]:
        labels.append("machine_with_writer_seek_patch")
    if s["reader_reseeks"]:
        labels.append("machine_with_viewer_reseek")
    if any(e.get("dirty") for e in sim.log):
        labels.append("machine_with_overwritten_values")
    if not sim.ops:
        labels.append("machine_empty")
    nontrivial = s["writes"] >= 4 and kinds >= 2 and bool(s["dangling_writes"] or s["oor"] or seeks or s["zero_past_end"])
    want_sample = nontrivial and s["blocks"] and len(sim.ops) <= 14 and not getattr(col, "_c20_machine_sampled", False)
    if want_sample:
        col._c20_machine_sampled = True
    if nontrivial:
        col.count("nontrivial_machines_not_deduplicated")
    col.case(key=("machine", repr(sim.ops)), nontrivial=nontrivial, labels=labels)
    if want_sample:
        col.sample({"part": "machine", "ops": sim.ops, "bytes_written": sim.f.getvalue().hex()})
    col.count("machine_ops", len(sim.ops))
    col.count("machine_accepted_writes", s["writes"])
    col.count("machine_out_of_range_rejections", s["oor"])
    seen = set()
    for bucket, msg in sim.failures:
        if bucket in seen:
            continue
        seen.add(bucket)
        if bucket in col.failures:
            col.failure_counts[bucket] += 1
            continue
        ops = reduce_ops(sim.ops, bucket)
        small = run_ops(ops)
        msgs = [m for b, m in small.failures if b == bucket]
        col.fail(bucket, {"kind": "machine", "ops": ops}, msgs[0] if msgs else msg)


# ---------------------------------------------------------------------------
# part (a): the state machine


def run_machines(ctx, n_machines, steps):
    import hypothesis
    from hypothesis import HealthCheck, Phase, settings
    from hypothesis.stateful import RuleBasedStateMachine, precondition, rule, run_state_machine_as_test

    col = ctx.col

    small_n = st.one_of(st.integers(0, 12), st.integers(0, 40), st.integers(0, 130))
    magnitude = st.one_of(
        st.integers(0, 20), st.integers(0, 1 << 16), st.integers(0, 1 << 70), st.integers(0, 1 << 300),
        st.builds(lambda e, d: max(0, (1 << e) + d), st.integers(0, 300), st.integers(-2, 2)),
    )
    flags = st.fixed_dictionaries({"reseek": st.booleans(), "late": st.sampled_from([False, False, True]),
                                   "fit": st.sampled_from([True] * 6 + [False])})
    mode = st.sampled_from(["in", "in", "in", "in", "max", "over", "neg"])

    class Machine(RuleBasedStateMachine):
        def __init__(self):
            super(Machine, self).__init__()
            self.sim = Sim()

        def go(self, op, fl):
            if fl.pop("fit"):
                op = fit_op(op, self.sim.m.rem)
            op.update(fl)
            self.sim.apply(op)

        def ranged(self, nbits, mode, x):
            if mode == "in":
                return x % (1 << nbits)
            if mode == "max":
                return (1 << nbits) - 1
            if mode == "over":
                return (1 << nbits) + (x if x % 3 else 0)
            return -1 - (x if x % 2 else 0)

        @rule(v=st.sampled_from([0, 1, True, False]), fl=flags)
        def write_bit(self, v, fl):
            self.go({"op": "bit", "v": v}, fl)

        @rule(n=small_n, mode=mode, x=magnitude, fl=flags)
        def write_nbits(self, n, mode, x, fl):
            self.go({"op": "nbits", "n": n, "v": self.ranged(n, mode, x)}, fl)

        @rule(n=st.integers(0, 4), mode=mode, x=magnitude, fl=flags)
        def write_uint_lit(self, n, mode, x, fl):
            self.go({"op": "uint_lit", "n": n, "v": self.ranged(8 * n, mode, x)}, fl)

        @rule(n=st.integers(0, 5), raw=st.binary(max_size=7), keep=st.sampled_from([0, 0, 0, 1, 2]), ba=st.booleans(), fl=flags)
        def write_bytes(self, n, raw, keep, ba, fl):
            # keep=0: as drawn (may be longer than n -> out of range); else cut to n-keep+1 bytes
            if keep:
                raw = raw[:max(0, n - keep + 1)]
            self.go({"op": "bytes", "n": n, "v": raw.hex(), "ba": ba}, fl)

        @rule(n=st.integers(0, 40), s=st.text(alphabet="01", max_size=44), cut=st.sampled_from([0, 1, 1, 2]), fl=flags)
        def write_bitarray(self, n, s, cut, fl):
            if cut == 1:
                s = (s + "1011001110001111" * 3)[:n]
            elif cut == 2:
                s = s[:n // 2]
            self.go({"op": "bitarray", "n": n, "v": s}, fl)

        @rule(x=magnitude, neg=st.sampled_from([False] * 7 + [True]), fl=flags)
        def write_uint(self, x, neg, fl):
            self.go({"op": "uint", "v": -1 - x if neg else x}, fl)

        @rule(x=magnitude, neg=st.booleans(), fl=flags)
        def write_sint(self, x, neg, fl):
            self.go({"op": "sint", "v": -x if neg else x}, fl)

        @rule(x=st.integers(0, 40), neg=st.booleans(), fl=flags)
        def write_small_sint(self, x, neg, fl):
            self.go({"op": "sint", "v": -x if neg else x}, fl)

        @precondition(lambda self: self.sim.m.rem is None)
        @rule(length=st.one_of(st.integers(-3, 12), st.integers(0, 80)))
        def block_begin(self, length):
            self.sim.apply({"op": "begin", "length": length})

        @precondition(lambda self: self.sim.m.rem is not None and not self.sim.poisoned)
        @rule(pad=st.text(alphabet="01", max_size=90), short=st.sampled_from([False, False, True]))
        def block_end(self, pad, short):
            unused = max(0, self.sim.m.rem)
            pad = (pad + "0110100111" * 9)[:unused // 2 if short else unused]
            self.sim.apply({"op": "end", "pad": pad})

        @rule()
        def flush(self):
            self.sim.apply({"op": "flush"})

        @precondition(lambda self: self.sim.m.rem is None and self.sim.m.pos >= 8)
        @rule(p=st.integers(0, 1000), m=st.integers(1, 4), v=st.integers(0, (1 << 32) - 1), b=st.booleans())
        def patch(self, p, m, v, b):
            self.sim.apply({"op": "patch", "p": p, "m": m, "v": v, "bytes": b})

        def teardown(self):
            self.sim.finish()
            record_machine(self.sim, col)

    run_state_machine_as_test(
        hypothesis.seed(ctx.seed)(Machine),
        settings=settings(max_examples=n_machines, stateful_step_count=steps, deadline=None, database=None,
                          phases=[Phase.generate], suppress_health_check=list(HealthCheck), print_blob=False),
    )


def rnd_magnitude(rnd):
    c = rnd.randrange(6)
    if c == 0:
        return rnd.randint(0, 20)
    if c == 1:
        return rnd.randint(0, 1 << 16)
    if c == 2:
        return rnd.randint(0, 1 << 70)
    if c == 3:
        return rnd.getrandbits(rnd.randint(1, 300))
    if c == 4:
        return max(0, (1 << rnd.randint(0, 300)) + rnd.randint(-2, 2))
    return rnd.randint(0, 5)


def rnd_ranged(rnd, nbits):
    mode = rnd.choice(["in", "in", "in", "in", "max", "over", "neg"])
    if mode == "in":
        return rnd.getrandbits(nbits) if nbits else 0
    if mode == "max":
        return (1 << nbits) - 1
    if mode == "over":
        return (1 << nbits) + rnd.choice([0, 1, rnd_magnitude(rnd)])
    return -1 - rnd.choice([0, rnd_magnitude(rnd)])


def rnd_bits(rnd, n):
    return "".join(rnd.choice("01") for _ in range(n))


def rnd_machine(rnd, steps):
    """The same operation grammar as the Hypothesis machine, driven by random.Random(seed)."""
    sim = Sim()
    for _ in range(rnd.randint(1, steps)):
        if sim.poisoned:
            break
        m = sim.m
        kinds = ["bit", "nbits", "nbits", "uint_lit", "bytes", "bitarray", "uint", "uint", "sint", "sint", "flush"]
        if m.rem is None:
            kinds += ["begin", "begin"]
            if m.pos >= 8:
                kinds.append("patch")
        else:
            kinds += ["end", "end"]
        k = rnd.choice(kinds)
        if k == "begin":
            sim.apply({"op": "begin", "length": rnd.choice([rnd.randint(-3, 12), rnd.randint(0, 80)])})
            continue
        if k == "end":
            unused = max(0, m.rem)
            sim.apply({"op": "end", "pad": rnd_bits(rnd, unused // 2 if rnd.random() < 0.3 else unused)})
            continue
        if k == "flush":
            sim.apply({"op": "flush"})
            continue
        if k == "patch":
            sim.apply({"op": "patch", "p": rnd.randint(0, 1000), "m": rnd.randint(1, 4), "v": rnd.getrandbits(32),
                       "bytes": rnd.random() < 0.5})
            continue
        if k == "bit":
            op = {"op": "bit", "v": rnd.choice([0, 1, True, False])}
        elif k == "nbits":
            n = rnd.choice([rnd.randint(0, 12), rnd.randint(0, 40), rnd.randint(0, 130)])
            op = {"op": "nbits", "n": n, "v": rnd_ranged(rnd, n)}
        elif k == "uint_lit":
            n = rnd.randint(0, 4)
            op = {"op": "uint_lit", "n": n, "v": rnd_ranged(rnd, 8 * n)}
        elif k == "bytes":
            n = rnd.randint(0, 5)
            ln = rnd.choice([n, n, n, max(0, n - 1), rnd.randint(0, 7)])
            op = {"op": "bytes", "n": n, "v": bytes(rnd.getrandbits(8) for _ in range(ln)).hex(), "ba": rnd.random() < 0.5}
        elif k == "bitarray":
            n = rnd.randint(0, 40)
            op = {"op": "bitarray", "n": n, "v": rnd_bits(rnd, rnd.choice([n, n, n // 2, rnd.randint(0, 44)]))}
        elif k == "uint":
            x = rnd_magnitude(rnd)
            op = {"op": "uint", "v": -1 - x if rnd.random() < 0.1 else x}
        else:
            x = rnd.choice([rnd_magnitude(rnd), rnd.randint(0, 40)])
            op = {"op": "sint", "v": -x if rnd.random() < 0.5 else x}
        if rnd.random() < 0.85:
            op = fit_op(op, m.rem)
        op["reseek"] = rnd.random() < 0.5
        op["late"] = rnd.random() < 0.3
        sim.apply(op)
    sim.finish()
    return sim


def run_rnd_machines(ctx, n_machines, steps):
    import random

    rnd = random.Random(ctx.seed * 7 + 3)
    for _ in range(n_machines):
        sim = rnd_machine(rnd, steps)
        record_machine(sim, ctx.col, "rnd_")


# ---------------------------------------------------------------------------
# part (b): exhaustive enumeration

PROGRAMS = [
    (("uint",),),
    (("sint",),),
    (("bool",),),
    (("nbits", 3),),
    (("uint",), ("uint",)),
    (("sint",), ("sint",)),
    (("uint",), ("sint",), ("bool",)),
    (("sint",), ("nbits", 2), ("uint",)),
    (("bool",), ("bool",), ("sint",)),
    (("nbits", 5), ("uint",), ("uint",)),
    (("sint",), ("sint",), ("sint",), ("sint",)),
    (("uint",), ("uint",), ("uint",), ("nbits", 1)),
]
POST = [(("nbits", 2), ("uint",)), (("bool",), ("sint",))]
PRE = (0, 3)


def exh_model(bits, pre, blen, pi):
    m = ReadModel(bits)
    res = []
    try:
        res.append(("pre", bits_to_int([m.nb() for _ in range(pre)]), m.pos))
        m.rem = blen
        for op in PROGRAMS[pi]:
            res.append(_model_op(m, op))
        unused = max(0, m.rem)
        m.rem = None
        res.append(("end", unused, None, m.pos))
        skipped = [m.nb() for _ in range(unused)]
        res[-1] = ("end", unused, "".join(str(b) for b in skipped), m.pos)
        for op in POST[pi % 2]:
            res.append(_model_op(m, op))
    except ModelEOF:
        res.append(("EOF",))
    return res, m


def _model_op(m, op):
    k = op[0]
    if k == "uint":
        v = dec_uint(m.nb)
    elif k == "sint":
        v = dec_sint(m.nb)
    elif k == "bool":
        v = m.nb() == 1
    else:
        v = bits_to_int([m.nb() for _ in range(op[1])])
    return (k, v, m.pos)


def exh_reader(R, data, pre, blen, pi):
    r = R(BytesIO(data))
    res = []
    try:
        res.append(("pre", r.read_nbits(pre), offset_of(r.tell())))
        r.bounded_block_begin(blen)
        for op in PROGRAMS[pi]:
            res.append(_reader_op(r, op))
        unused = r.bounded_block_end()
        res.append(("end", unused, None, offset_of(r.tell())))
        skipped = r.read_bitarray(unused)
        res[-1] = ("end", unused, skipped.to01(), offset_of(r.tell()))
        for op in POST[pi % 2]:
            res.append(_reader_op(r, op))
    except EOFError:
        res.append(("EOF",))
    return res


def _reader_op(r, op):
    k = op[0]
    if k == "uint":
        v = r.read_uint()
    elif k == "sint":
        v = r.read_sint()
    elif k == "bool":
        v = r.read_bit() == 1
    else:
        v = r.read_nbits(op[1])
    return (k, v, offset_of(r.tell()))


def exh_decoder(D, State, EOS, data, pre, blen, pi):
    state = State()
    D.init_io(state, BytesIO(data))
    res = []
    try:
        res.append(("pre", D.read_nbits(state, pre), offset_of(D.tell(state))))
        state["bits_left"] = blen
        for op in PROGRAMS[pi]:
            k = op[0]
            if k == "uint":
                v = D.read_uintb(state)
            elif k == "sint":
                v = D.read_sintb(state)
            elif k == "bool":
                v = D.read_boolb(state)
            else:
                v = bits_to_int([D.read_bitb(state) for _ in range(op[1])])
            res.append((k, v, offset_of(D.tell(state))))
        res.append(("end", None, None, offset_of(D.tell(state))))
        D.flush_inputb(state)
        res[-1] = ("end", offset_of(D.tell(state)))
        for op in POST[pi % 2]:
            k = op[0]
            if k == "uint":
                v = D.read_uint(state)
            elif k == "sint":
                v = D.read_sint(state)
            elif k == "bool":
                v = D.read_bool(state)
            else:
                v = D.read_nbits(state, op[1])
            res.append((k, v, offset_of(D.tell(state))))
    except EOS:
        res.append(("EOF",))
    return res


def _decoder_view(res_m):
    """What the decoder can observe of the model's result list."""
    out = []
    for x in res_m:
        if x[0] == "end":
            if x[2] is None:
                out.append(("end", None, None, x[3]))
            else:
                out.append(("end", x[3]))
        else:
            out.append(x)
    return out


def first_diff(a, b):
    for i in range(max(len(a), len(b))):
        x = a[i] if i < len(a) else None
        y = b[i] if i < len(b) else None
        if x != y:
            return i, x, y
    return None


def exh_one(mods, data, pre, blen, pi, col):
    """One (file, offset, block length, program) combination. Returns the model."""
    R, D, State, EOS = mods
    bits = unpack(data)
    res_m, m = exh_model(bits, pre, blen, pi)
    case = {"kind": "exh", "file": data.hex(), "pre": pre, "blen": blen, "prog": pi}
    try:
        res_r = exh_reader(R, data, pre, blen, pi)
    except Exception as e:
        col.fail(col.crash_bucket(e, "exh-reader-crash"), case, "BitstreamReader raised %r" % (e,))
        res_r = res_m
    if res_r != res_m:
        i, x, y = first_diff(res_r, res_m)
        col.fail("exh-reader:%s" % ((y or x)[0],), case,
                 "BitstreamReader on %s offset %d block length %d program %r: step %d gave %r, model %r"
                 % (data.hex(), pre, blen, PROGRAMS[pi], i, x, y))
    if blen >= 0:
        want = _decoder_view(res_m)
        try:
            res_d = exh_decoder(D, State, EOS, data, pre, blen, pi)
        except Exception as e:
            col.fail(col.crash_bucket(e, "exh-decoder-crash"), case, "decoder raised %r" % (e,))
            res_d = want
        if res_d != want:
            i, x, y = first_diff(res_d, want)
            col.fail("exh-decoder:%s" % ((y or x)[0],), case,
                     "decoder on %s offset %d block length %d program %r: step %d gave %r, model (= BitstreamReader) %r"
                     % (data.hex(), pre, blen, PROGRAMS[pi], i, x, y))
    return res_m, m


def exh_files(lmax):
    yield b""
    for v in range(256):
        yield bytes([v])
    zeros = 16 - lmax
    for v in range(1 << lmax):
        yield (v << zeros).to_bytes(2, "big")


def run_exh(ctx, k, n, mods):
    col = ctx.col
    lmax = ctx.pick(14, 16)
    nprog = len(PROGRAMS)
    evals = 0
    dangling_cases = 0
    eof_cases = 0
    sampled = 0
    for fi, data in enumerate(exh_files(lmax)):
        if fi % n != k:
            continue
        nbits = 8 * len(data)
        for blen in range(-2, nbits + 3):
            interesting = False
            for pre in PRE:
                if pre > nbits:
                    continue
                for pi in range(nprog):
                    if PRE[(pi // 2 + fi) % 2] != pre:
                        continue  # each program runs at one start offset per file, alternating between files
                    res_m, m = exh_one(mods, data, pre, blen, pi, col)
                    evals += 1
                    if res_m[-1] == ("EOF",):
                        eof_cases += 1
                    if m.dangling:
                        dangling_cases += 1
                        if m.inside:
                            interesting = True
                            if sampled < 1 and k < 3 and fi > 300 and pi == 6 + k % 4:
                                sampled += 1
                                col.sample({"part": "exh", "file": data.hex(), "start_offset": pre, "block_length": blen,
                                            "program": [list(o) for o in PROGRAMS[pi]] + ["end"] + [list(o) for o in POST[pi % 2]],
                                            "model_result": res_m})
            if interesting:
                col.count("nontrivial_exh_file_blocklength_pairs")
                col.nontrivial.add((1 << 62) | (len(data) << 40) | (int.from_bytes(data, "big") << 8) | (blen + 2))
    col.evaluations += evals
    col.count("exh_combinations", evals)
    col.count("exh_with_reads_past_block_end", dangling_cases)
    col.count("exh_ending_at_end_of_stream", eof_cases)


# ---------------------------------------------------------------------------
# part (c): exp-Golomb length functions


def check_len(v, col, mods=None):
    from vc2_conformance.bitstream import exp_golomb as EG
    from vc2_conformance.bitstream.exceptions import OutOfRangeError
    from vc2_conformance.bitstream.io import BitstreamReader, BitstreamWriter

    case = {"kind": "len", "v": v}
    for name, fn, enc, write, read in (
        ("exp_golomb_length", EG.exp_golomb_length, enc_uint, "write_uint", "read_uint"),
        ("signed_exp_golomb_length", EG.signed_exp_golomb_length, enc_sint, "write_sint", "read_sint"),
    ):
        if v < 0 and name == "exp_golomb_length":
            try:
                got = fn(v)
            except OutOfRangeError:
                continue
            except Exception as e:
                col.fail("len-negative-wrong-exception", case, "%s(%d) raised %r" % (name, v, e))
                continue
            col.fail("len-negative-accepted", case, "%s(%d) returned %r instead of raising OutOfRangeError" % (name, v, got))
            continue
        want = len(enc(v))
        try:
            got = fn(v)
        except Exception as e:
            col.fail(col.crash_bucket(e, "len-crash"), case, "%s(%d) raised %r" % (name, v, e))
            continue
        f = BytesIO()
        w = BitstreamWriter(f)
        try:
            getattr(w, write)(v)
            written = offset_of(w.tell())
            w.flush()
        except Exception as e:
            col.fail(col.crash_bucket(e, "len-write-crash"), case, "%s(%d) raised %r" % (write, v, e))
            continue
        if got != written:
            col.fail("len-vs-written:" + name, case, "%s(%d)=%r but %s wrote %d bits" % (name, v, got, write, written))
        if written != want or f.getvalue() != pack(enc(v)):
            col.fail("written-vs-model:" + write, case, "%s(%d) wrote %d bits %s, own coder gives %d bits %s"
                     % (write, v, written, f.getvalue().hex(), want, pack(enc(v)).hex()))
        r = BitstreamReader(BytesIO(f.getvalue()))
        try:
            back = getattr(r, read)()
        except Exception as e:
            col.fail(col.crash_bucket(e, "len-read-crash"), case, "%s of the code of %d raised %r" % (read, v, e))
            continue
        if back != v or offset_of(r.tell()) != want:
            col.fail("len-readback:" + read, case, "%s read %r ending at bit %d, wrote %d (%d bits)" % (read, back, offset_of(r.tell()), v, want))


def run_len(ctx, k, n):
    col = ctx.col
    if k == 0:
        values = set(range(0, 4097)) | set(range(-64, 0))
        for e in range(0, 301):
            for d in (-2, -1, 0, 1, 2):
                values.add((1 << e) + d)
                values.add(-((1 << e) + d))
        for v in sorted(values):
            check_len(v, col, None)
            col.case(key=("len", v), nontrivial=abs(v) >= 1, labels=("len_enumerated",))
        col.sample({"part": "len", "enumerated": "0..4096, -64..-1, +-(2^k+d) for k<=300, d in -2..2", "count": len(values)})
    big = st.one_of(
        st.integers(-(1 << 300), 1 << 300), st.integers(-(1 << 64), 1 << 64), st.integers(-5000, 5000),
        st.builds(lambda e, d, s: s * ((1 << e) + d), st.integers(0, 299), st.integers(-3, 3), st.sampled_from([-1, 1])),
    )

    def body(v, col):
        check_len(v, col, None)
        col.case(key=("len", v), nontrivial=abs(v) >= 1,
                 labels=("len_generated", "len_negative" if v < 0 else "len_non_negative",
                         "len_over_2^64" if abs(v) > (1 << 64) else "len_small"),
                 sample=lambda: {"part": "len", "value": v, "own_unsigned_code_bits": len(enc_uint(abs(v))),
                                 "own_signed_code_bits": len(enc_sint(v))})

    run_given(big, body, ctx, ctx.pick(1500, 160000))


# ---------------------------------------------------------------------------


def shards(tier):
    out = [("exh", k, 32) for k in range(32)]
    out += [("machine", k, 16) for k in range(16)]
    out += [("len", k, 4) for k in range(4)]
    out += [("rewind", 0, 1), ("long", 0, 1)]
    return out


def _mods():
    from vc2_conformance.bitstream.io import BitstreamReader
    from vc2_conformance.decoder import io as D
    from vc2_conformance.decoder.exceptions import UnexpectedEndOfStream
    from vc2_conformance.pseudocode.state import State

    return (BitstreamReader, D, State, UnexpectedEndOfStream)


def rewind_one(first, a, k, n, v, lead, col):
    """Writer only: `lead` whole bytes, then `first` bits of value a, seek back to bit k of that unfinished byte, write n
    bits of value v, flush. Documented: "Seeking to a given byte will overwrite any bits already set in that byte to 0",
    so the byte must read k zero bits, the n new bits, zeros; tell() must follow."""
    from io import BytesIO

    from vc2_conformance.bitstream.io import BitstreamReader, BitstreamWriter

    f = BytesIO()
    w = BitstreamWriter(f)
    for i in range(lead):
        w.write_nbits(8, 0xA5)
    w.write_nbits(first, a)
    w.seek(lead, 7 - k)
    data = {"kind": "rewind", "first": first, "a": a, "k": k, "n": n, "v": v, "lead": lead}
    if w.tell() != (lead, 7 - k):
        col.fail("writer-seek-tell", data, "tell()=%r after seek(%d, %d)" % (w.tell(), lead, 7 - k))
        return
    w.write_nbits(n, v)
    end = (lead + 1, 7) if k + n == 8 else (lead, 7 - (k + n))
    if w.tell() != end:
        col.fail("writer-seek-tell", data, "tell()=%r after seek(%d, %d) and writing %d bits, expected %r" % (w.tell(), lead, 7 - k, n, end))
    w.flush()
    want = bytes([0xA5] * lead + [(v << (8 - k - n)) & 0xFF])
    got = f.getvalue()
    if got != want:
        col.fail("writer-rewind-in-byte", data, "wrote %d bits (%r), seek back to bit %d of the unfinished byte, wrote %d bits (%r): file is "
                 "%s, documented semantics give %s" % (first, a, k, n, v, got.hex(), want.hex()))
        return
    r = BitstreamReader(BytesIO(got))
    r.seek(lead, 7 - k)
    back = r.read_nbits(n)
    if back != v:
        col.fail("writer-rewind-in-byte", data, "wrote %r at (%d, %d) (previously other bits) but read back %r" % (v, lead, 7 - k, back))


def run_rewind(ctx):
    """Exhaustive: every prefix of 1..7 bits, every seek-back position inside it, every overwrite that stays in the byte."""
    col = ctx.col
    for lead in (0, 2):
        for first in range(1, 8):
            for a in range(1 << first):
                for k in range(0, first + 1):
                    for n in range(1, 8 - k + 1):
                        for v in range(1 << n):
                            rewind_one(first, a, k, n, v, lead, col)
                            # non-trivial: some bit that was 1 before the seek has to read 0 afterwards
                            old_byte = (a << (8 - first)) & 0xFF
                            new_byte = (v << (8 - k - n)) & 0xFF
                            col.case(key=("rewind", lead, first, a, k, n, v), nontrivial=(old_byte & ~new_byte) != 0,
                                     labels=("part:rewind_in_byte",))


def long_one(n, seed, col):
    """A file of n drawn bytes (longer than any buffer a reader might keep) read to its end by both readers with drawn
    widths, plus seeks to drawn positions followed by a read; every value and tell() against the bytes themselves."""
    import random
    from io import BytesIO

    from vc2_conformance.bitstream.io import BitstreamReader
    from vc2_conformance.decoder import io as D
    from vc2_conformance.pseudocode.state import State

    rnd = random.Random(seed)
    data = rnd.randbytes(n)
    total = 8 * n
    big = int.from_bytes(data, "big")
    data_rec = {"kind": "long", "n": n, "seed": seed}

    def bits(pos, w):
        return (big >> (total - pos - w)) & ((1 << w) - 1)

    r = BitstreamReader(BytesIO(data))
    state = State()
    D.init_io(state, BytesIO(data))
    pos = 0
    while pos < total:
        near = min(abs(pos - 8 * b) for b in range(65536, n + 65536, 65536)) if n >= 65536 else total
        if near > 8 * 600 and pos % 8 == 0 and total - pos > 8 * 600:
            k = rnd.randint(64, 512)  # stride quickly through the parts far from any 64 KiB boundary
            got = r.read_bytes(k)
            want = data[pos // 8:pos // 8 + k]
            for _ in range(k):
                D.read_uint_lit(state, 1)
            if got != want:
                col.fail("long-file-read_bytes", data_rec, "read_bytes(%d) at byte %d of a %d byte file returned other bytes" % (k, pos // 8, n))
                return
            pos += 8 * k
        else:
            w = min(rnd.choice([1, 3, 7, 8, 13, 32, 64]), total - pos)
            got = r.read_nbits(w)
            got2 = D.read_nbits(state, w)
            want = bits(pos, w)
            if got != want or got2 != want:
                col.fail("long-file-read_nbits", data_rec, "read_nbits(%d) at bit %d of a %d byte file: BitstreamReader %r, decoder %r, file %r"
                         % (w, pos, n, got, got2, want))
                return
            pos += w
        if r.tell() != (pos // 8, 7 - pos % 8) or D.tell(state) != (pos // 8, 7 - pos % 8):
            col.fail("long-file-tell", data_rec, "after %d bits of a %d byte file: tell() BitstreamReader %r, decoder %r" % (pos, n, r.tell(), D.tell(state)))
            return
    for _ in range(40):
        p = rnd.randrange(0, total - 64)
        if rnd.random() < 0.5 and n > 65536:
            p = 8 * 65536 * rnd.randint(1, n // 65536) - rnd.randint(0, 40)
            p = max(0, min(p, total - 64))
        r.seek(p // 8, 7 - p % 8)
        w = rnd.choice([1, 8, 24, 64])
        got = r.read_nbits(w)
        if got != bits(p, w):
            col.fail("long-file-seek-read", data_rec, "seek to bit %d of a %d byte file then read_nbits(%d): %r, file %r" % (p, n, w, got, bits(p, w)))
            return


def run_long(ctx):
    import random

    rnd = random.Random(ctx.seed)
    sizes = [65535, 65536, 65537, 70000, 131072 + 3] + ([200000, 262144 + 1, 70001] if ctx.thorough else [])
    for n in sizes:
        for rep in range(ctx.pick(1, 4)):
            seed = rnd.getrandbits(32)
            try:
                long_one(n, seed, ctx.col)
            except Exception as e:  # e.g. EOFError before the end of the file
                ctx.col.fail(ctx.col.crash_bucket(e, "long-file"), {"kind": "long", "n": n, "seed": seed},
                             "reading a %d byte file raised %s: %s" % (n, type(e).__name__, str(e)[:200]))
            ctx.col.case(key=("long", n, seed), nontrivial=True, labels=("part:long_file",))


def run_shard(spec, ctx):
    kind, k, n = spec
    if kind == "long":
        return run_long(ctx)
    if kind == "rewind":
        return run_rewind(ctx)
    if kind == "exh":
        run_exh(ctx, k, n, _mods())
    elif kind == "machine":
        run_machines(ctx, ctx.pick(80, 4000), ctx.pick(30, 50))
        run_rnd_machines(ctx, ctx.pick(1500, 160000), ctx.pick(30, 50))
    else:
        run_len(ctx, k, n)


def replay(data, col):
    kind = data.get("kind")
    col.evaluations += 1
    if kind == "machine":
        sim = run_ops(data["ops"])
        seen = set()
        for bucket, msg in sim.failures:
            if bucket not in seen:
                seen.add(bucket)
                col.fail(bucket, data, msg)
    elif kind == "exh":
        exh_one(_mods(), bytes.fromhex(data["file"]), int(data["pre"]), int(data["blen"]), int(data["prog"]), col)
    elif kind == "len":
        check_len(int(data["v"]), col, None)
    elif kind == "long":
        long_one(data["n"], data["seed"], col)
    elif kind == "rewind":
        rewind_one(data["first"], data["a"], data["k"], data["n"], data["v"], data["lead"], col)
    else:
        raise ValueError("unknown replay kind %r" % (kind,))
