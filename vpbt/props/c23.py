"""C23 — raw picture files round-trip and picture comparisons are exact.

One case = a picture A (format, in-range samples, picture number) and a second
picture B derived from A by one drawn *variant* (identical, k samples changed
in drawn components, one metadata field / coding mode / picture number changed,
one JSON file missing, junk in the padding bits of B's raw file).  Everything
needed to re-run a case is plain JSON data (``replay``).

Oracles are the harness' own: component sizes and depths by own arithmetic
from the documented pseudocode, bytes per sample = smallest power of two,
raw bytes by own little-endian encoding, JSON document structure from
docs/source/user_guide/file_format.rst, and own count of differing positions.
"""

import contextlib
import io
import json
import os
import random
import re
import shutil
import tempfile

from hypothesis import strategies as st

from vpbt.core import run_given, hash64

from vc2_data_tables import (
    ColorDifferenceSamplingFormats,
    PictureCodingModes,
    SourceSamplingModes,
    PresetColorPrimaries,
    PresetColorMatrices,
    PresetTransferFunctions,
)

ID = "C23"
LEVEL = "exploration"
RULE = (
    "Hypothesis draws a format (frame 1..12 per axis, about 6 % of cases up to 64 (half of those with a single sample changed by +-1), with every component non-empty, 4:4:4/4:2:2/4:2:0, frames or "
    "fields, luma and colour-difference excursions giving depths 1..64 independently with weight on 1,7,8,9,10,12,15,16,17,"
    "24,31,32,33,48,63,64, arbitrary other metadata, picture number 0..2^32-1 with weight on the ends), a seed from "
    "which all samples are filled (noise / 0 / max / extremes checkerboard / byte-pattern / powers of two +-1) and a "
    "variant for the second picture: identical, one JSON file missing, k samples changed in one or several components "
    "(delta +-1, top bit, random), junk in the padding bits of the second raw file (written by the harness' own "
    "encoder), one video parameter changed, coding mode changed, picture number changed. Each case checks (a) "
    "file_format.write then read returns identical samples, VideoParameters (enum types restored), coding mode and "
    "number, raw size and bytes equal the harness' own little-endian encoding, the JSON file has the documented "
    "structure; (b) vc2-picture-compare main([a,b]) exits 0 and says 'Pictures are identical' iff samples and "
    "metadata match, otherwise exits non-zero, and for sample differences the per-component pixel counts it prints "
    "equal the harness' count of differing positions. Non-trivial = luma or colour-difference depth not a multiple "
    "of 8 or > 16, and, when the variant changes samples, the change is confined to one component; distinct by hash "
    "of the whole case data (formats, all samples, variant)."
)
ASSUMPTIONS = [
    "Every picture component is non-empty (frame at least one chroma sample wide/high); zero-area components are not generated.",
    "In-range means 0 <= sample <= 2^depth-1 with depth = intlog2(excursion+1) as documented in file_format.rst.",
    "Only 'exit 0 iff identical' is required of the exit code; the particular non-zero code (1,2,3,4) is recorded as a label.",
    "A missing JSON file is only generated for pairs whose metadata are equal (the tool documents that it assumes equality).",
    "PSNR and percentage figures in the tool's output are not checked (not part of the statement).",
]

ENUMS = {
    "color_diff_format_index": ColorDifferenceSamplingFormats,
    "source_sampling": SourceSamplingModes,
    "color_primaries_index": PresetColorPrimaries,
    "color_matrix_index": PresetColorMatrices,
    "transfer_function_index": PresetTransferFunctions,
}
VP_KEYS = [
    "frame_width", "frame_height", "color_diff_format_index", "source_sampling", "top_field_first",
    "frame_rate_numer", "frame_rate_denom", "pixel_aspect_ratio_numer", "pixel_aspect_ratio_denom",
    "clean_width", "clean_height", "left_offset", "top_offset", "luma_offset", "luma_excursion",
    "color_diff_offset", "color_diff_excursion", "color_primaries_index", "color_matrix_index",
    "transfer_function_index",
]
COMPONENTS = ("Y", "C1", "C2")
SPECIAL_DEPTHS = [1, 2, 7, 8, 9, 10, 12, 15, 16, 17, 24, 31, 32, 33, 48, 63, 64]


def EXHAUSTIVE(tier):
    return False


# --------------------------------------------------------------------------
# own arithmetic (from the pseudocode quoted in file_format.rst)


def own_layout(vp, pcm):
    """{"Y": (w, h, depth, bytes_per_sample), ...} by the harness' own arithmetic."""
    fw, fh = vp["frame_width"], vp["frame_height"]
    cdf = int(vp["color_diff_format_index"])
    lw, lh, cw, ch = fw, fh, fw, fh
    if cdf == 1:
        cw = cw // 2
    if cdf == 2:
        cw = cw // 2
        ch = ch // 2
    if int(pcm) == 1:
        lh = lh // 2
        ch = ch // 2
    # intlog2(n) = ceil(log2(n)) so intlog2(e + 1) = bit_length(e)
    ld = int(vp["luma_excursion"]).bit_length()
    cd = int(vp["color_diff_excursion"]).bit_length()

    def bps(depth):
        need = -(-depth // 8)
        p = 1
        while p < need:
            p *= 2
        return p

    return {"Y": (lw, lh, ld, bps(ld)), "C1": (cw, ch, cd, bps(cd)), "C2": (cw, ch, cd, bps(cd))}


def own_raw_bytes(pic, layout, junk=None):
    """Planar, raster order, little endian, LSB aligned, zero padded (or junk padded)."""
    out = bytearray()
    for c in COMPONENTS:
        w, h, depth, bps = layout[c]
        for y in range(h):
            for x in range(w):
                v = pic[c][y][x]
                if junk is not None:
                    v |= junk[c][y][x] << depth
                out += int(v).to_bytes(bps, "little")
    return bytes(out)


def depth_class(d):
    if d % 8 == 0:
        return "=%d" % d if d in (8, 16, 32, 64) else "mult8-other"
    if d < 8:
        return "1-7"
    if d < 16:
        return "9-15"
    if d < 32:
        return "17-31"
    return "33-63"


def to_vp(vp):
    from vc2_conformance.pseudocode.video_parameters import VideoParameters

    out = VideoParameters()
    for k in VP_KEYS:
        v = vp[k]
        if k in ENUMS:
            v = ENUMS[k](v)
        out[k] = v
    return out


# --------------------------------------------------------------------------
# the check, from plain data


def write_side(FF, side, writer, stem, junk):
    layout = own_layout(side["vp"], side["pcm"])
    if writer == "repo":
        FF.write(side["pic"], to_vp(side["vp"]), PictureCodingModes(side["pcm"]), stem + ".raw")
    else:
        # harness' own writer following file_format.rst
        with open(stem + ".raw", "wb") as f:
            f.write(own_raw_bytes(side["pic"], layout, junk))
        with open(stem + ".json", "wb") as f:
            f.write(json.dumps({
                "picture_number": str(side["pic"]["pic_num"]),
                "picture_coding_mode": side["pcm"],
                "video_parameters": side["vp"],
            }).encode("utf-8"))
    return layout


def check_roundtrip(FF, side, stem, col, data):
    """write(A) with the repository, inspect the files, read back."""
    vp, pcm, pic = side["vp"], side["pcm"], side["pic"]
    layout = own_layout(vp, pcm)
    try:
        FF.write(pic, to_vp(vp), PictureCodingModes(pcm), stem + ".json")
    except Exception as e:
        col.fail(col.crash_bucket(e, "write-crash"), data, "file_format.write raised %r" % (e,))
        return False
    raw = open(stem + ".raw", "rb").read()
    want_size = sum(w * h * b for (w, h, d, b) in layout.values())
    if len(raw) != want_size:
        col.fail("raw-size", data, "raw file is %d bytes, own arithmetic gives %d (layout %r)" % (len(raw), want_size, layout))
    elif raw != own_raw_bytes(pic, layout):
        want = own_raw_bytes(pic, layout)
        i = next(i for i in range(len(raw)) if raw[i] != want[i])
        col.fail("raw-layout", data, "raw file byte %d is 0x%02x, documented little-endian zero-padded layout gives 0x%02x"
                 % (i, raw[i], want[i]))
    # the JSON document, as documented
    try:
        doc = json.loads(open(stem + ".json", "rb").read().decode("utf-8"))
        problems = []
        if not isinstance(doc, dict) or sorted(doc) != ["picture_coding_mode", "picture_number", "video_parameters"]:
            problems.append("top-level keys %r" % (sorted(doc) if isinstance(doc, dict) else doc,))
        else:
            if type(doc["picture_number"]) is not str or doc["picture_number"] != str(pic["pic_num"]):
                problems.append("picture_number %r, expected the string %r" % (doc["picture_number"], str(pic["pic_num"])))
            if type(doc["picture_coding_mode"]) is not int or doc["picture_coding_mode"] != pcm:
                problems.append("picture_coding_mode %r, expected %r" % (doc["picture_coding_mode"], pcm))
            dvp = doc["video_parameters"]
            if not isinstance(dvp, dict) or sorted(dvp) != sorted(VP_KEYS):
                problems.append("video_parameters keys %r" % (dvp,))
            else:
                for k in VP_KEYS:
                    if type(dvp[k]) is not type(vp[k]) or dvp[k] != vp[k]:
                        problems.append("video_parameters[%s]=%r, expected %r" % (k, dvp[k], vp[k]))
        if problems:
            col.fail("json-structure", data, "metadata file differs from documented structure: " + "; ".join(problems[:4]))
    except Exception as e:
        col.fail("json-unreadable", data, "metadata file is not UTF-8 JSON: %r" % (e,))
    # read back (once through each of the two file names)
    ok = True
    for name in (stem + ".raw", stem + ".json"):
        try:
            pic2, vp2, pcm2 = FF.read(name)
        except Exception as e:
            col.fail(col.crash_bucket(e, "read-crash"), data, "file_format.read raised %r" % (e,))
            return False
        if pic2.get("pic_num") != pic["pic_num"]:
            ok = False
            col.fail("roundtrip-pic-num", data, "picture number %r read back as %r" % (pic["pic_num"], pic2.get("pic_num")))
        if sorted(pic2) != sorted(pic):
            ok = False
            col.fail("roundtrip-keys", data, "picture keys read back as %r" % (sorted(pic2),))
        else:
            for c in COMPONENTS:
                if pic2[c] != pic[c]:
                    ok = False
                    w, h, d, b = layout[c]
                    where = "shape"
                    if len(pic2[c]) == h and all(len(r) == w for r in pic2[c]):
                        where = next("(x=%d,y=%d): wrote %d read %r" % (x, y, pic[c][y][x], pic2[c][y][x])
                                     for y in range(h) for x in range(w) if pic2[c][y][x] != pic[c][y][x])
                    col.fail("roundtrip-samples", data, "component %s depth %d differs after write/read at %s" % (c, d, where))
        if dict(vp2) != vp or sorted(vp2) != sorted(VP_KEYS):
            ok = False
            col.fail("roundtrip-video-parameters", data, "video parameters read back as %r" % (dict(vp2),))
        else:
            for k, enum in ENUMS.items():
                if not isinstance(vp2[k], enum):
                    ok = False
                    col.fail("roundtrip-enum-type", data, "%s read back as %r, not a %s" % (k, vp2[k], enum.__name__))
            if type(vp2["top_field_first"]) is not bool:
                ok = False
                col.fail("roundtrip-enum-type", data, "top_field_first read back as %r" % (vp2["top_field_first"],))
        if pcm2 != pcm or not isinstance(pcm2, PictureCodingModes):
            ok = False
            col.fail("roundtrip-coding-mode", data, "coding mode %r read back as %r" % (pcm, pcm2))
    return ok


LINE_RE = re.compile(r"^\s*(Y|C1|C2): (?:(Identical)|Different: PSNR = \S+ dB, (\d+) pixels? \(\S+%\) differs?)\s*$")


def check_compare(CMP, FF, data, tmp, col, a_written=False):
    """Returns (identical_expected, exit code, own counts, output) or None after a crash."""
    a, b = data["a"], data["b"]
    missing = data.get("missing_json")
    sa, sb = os.path.join(tmp, "pa_3"), os.path.join(tmp, "pb_3")
    for stem in (sb,) if a_written else (sa, sb):
        for ext in (".raw", ".json"):
            if os.path.exists(stem + ext):
                os.remove(stem + ext)
    try:
        la = own_layout(a["vp"], a["pcm"]) if a_written else write_side(FF, a, "repo", sa, None)
        lb = write_side(FF, b, data.get("b_writer", "repo"), sb, data.get("b_junk"))
    except Exception as e:
        col.fail(col.crash_bucket(e, "write-crash"), data, "writing the pair raised %r" % (e,))
        return None
    if missing == "a":
        os.remove(sa + ".json")
    elif missing == "b":
        os.remove(sb + ".json")

    meta_equal = bool(missing) or (a["vp"] == b["vp"] and a["pcm"] == b["pcm"] and a["pic"]["pic_num"] == b["pic"]["pic_num"])
    counts = None
    if meta_equal:
        counts = {}
        for c in COMPONENTS:
            w, h, d, bps = la[c]
            counts[c] = sum(1 for y in range(h) for x in range(w) if a["pic"][c][y][x] != b["pic"][c][y][x])
    identical = meta_equal and not any(counts.values())

    out, err = io.StringIO(), io.StringIO()
    try:
        with contextlib.redirect_stdout(out), contextlib.redirect_stderr(err):
            rc = CMP.main([sa + ".raw", sb + ".raw"])
    except SystemExit as e:
        col.fail("compare-sys-exit", data, "vc2-picture-compare gave up with exit %r: %s" % (e.code, err.getvalue().strip()))
        return None
    except Exception as e:
        col.fail(col.crash_bucket(e, "compare-crash"), data, "vc2-picture-compare raised %r" % (e,))
        return None
    text = out.getvalue()
    says_identical = "Pictures are identical" in text
    if identical:
        if rc != 0 or not says_identical:
            col.fail("false-difference", data, "all samples and metadata match but exit=%r output=%r" % (rc, text))
    else:
        if rc == 0 or says_identical or not isinstance(rc, int):
            col.fail("missed-difference", data, "pictures differ (metadata equal=%r, own counts=%r) but exit=%r output=%r"
                     % (meta_equal, counts, rc, text))
        elif meta_equal:
            reported = {}
            for line in text.splitlines():
                m = LINE_RE.match(line)
                if m:
                    reported[m.group(1)] = 0 if m.group(2) else int(m.group(3))
            if reported != counts:
                col.fail("wrong-count", data, "differing positions per component: own count %r, tool reports %r (output %r)"
                         % (counts, reported, text))
    return identical, rc, counts, text


def check_case(data, col, tmp, FF, CMP):
    for name in os.listdir(tmp):
        os.remove(os.path.join(tmp, name))
    ok = check_roundtrip(FF, data["a"], os.path.join(tmp, "pa_3"), col, data)
    wrote = os.path.exists(os.path.join(tmp, "pa_3.raw")) and os.path.exists(os.path.join(tmp, "pa_3.json"))
    res = check_compare(CMP, FF, data, tmp, col, a_written=wrote)
    return ok, res


# --------------------------------------------------------------------------
# generation


def _depth():
    return st.one_of(st.sampled_from(SPECIAL_DEPTHS), st.integers(1, 64))


def _excursion(depth_strategy):
    def f(d):
        lo, hi = 1 << (d - 1), (1 << d) - 1
        return st.one_of(st.just(hi), st.just(lo), st.integers(lo, hi))
    return depth_strategy.flatmap(f)


U32 = (1 << 32) - 1
_small_or_big = st.one_of(st.integers(1, 60), st.integers(1, U32), st.sampled_from([1, 1001, 30000, U32]))
_pic_num = st.one_of(st.integers(0, U32), st.sampled_from([0, 1, (1 << 31) - 1, 1 << 31, U32 - 1, U32, 1 << 24, (1 << 24) + 1]),
                     st.integers(0, 100), st.integers((1 << 31), U32))

VARIANTS = ["identical", "missing_a", "missing_b", "samples_one", "samples_one", "samples_one", "samples_multi", "samples_multi",
            "samples_missing", "padding", "padding_samples", "meta_field", "meta_field", "meta_pcm", "meta_picnum"]


@st.composite
def case_params(draw):
    cdf = draw(st.sampled_from([0, 1, 2]))
    pcm = draw(st.sampled_from([0, 1]))
    hs = 1 if cdf == 0 else 2
    vs = (2 if cdf == 2 else 1) * (2 if pcm else 1)
    big = draw(st.integers(0, 15)) == 0  # about 6 % larger pictures (up to 64x64)
    top = 64 if big else 12
    vp = {
        "frame_width": draw(st.integers(hs, top)),
        "frame_height": draw(st.integers(vs, top)),
        "color_diff_format_index": cdf,
        "source_sampling": draw(st.sampled_from([0, 1])),
        "top_field_first": draw(st.booleans()),
        "frame_rate_numer": draw(_small_or_big),
        "frame_rate_denom": draw(_small_or_big),
        "pixel_aspect_ratio_numer": draw(_small_or_big),
        "pixel_aspect_ratio_denom": draw(_small_or_big),
        "clean_width": 0, "clean_height": 0, "left_offset": 0, "top_offset": 0,
        "luma_excursion": draw(_excursion(_depth())),
        "color_diff_excursion": draw(_excursion(_depth())),
        "color_primaries_index": draw(st.sampled_from([int(m) for m in PresetColorPrimaries])),
        "color_matrix_index": draw(st.sampled_from([int(m) for m in PresetColorMatrices])),
        "transfer_function_index": draw(st.sampled_from([int(m) for m in PresetTransferFunctions])),
    }
    vp["clean_width"] = draw(st.integers(1, vp["frame_width"]))
    vp["clean_height"] = draw(st.integers(1, vp["frame_height"]))
    vp["left_offset"] = draw(st.integers(0, vp["frame_width"] - vp["clean_width"]))
    vp["top_offset"] = draw(st.integers(0, vp["frame_height"] - vp["clean_height"]))
    vp["luma_offset"] = draw(st.integers(0, (1 << vp["luma_excursion"].bit_length()) - 1))
    vp["color_diff_offset"] = draw(st.integers(0, (1 << vp["color_diff_excursion"].bit_length()) - 1))
    return {
        "vp": vp, "pcm": pcm, "pic_num": draw(_pic_num),
        "variant": draw(st.sampled_from(VARIANTS + ["samples_tiny"] * (15 if big else 1))),
        "seed": draw(st.integers(0, (1 << 48))),
    }


def fill_component(rnd, w, h, depth):
    top = (1 << depth) - 1
    mode = rnd.choice(["noise", "noise", "noise", "zero", "max", "checker", "bytes", "pow2", "drawn"])
    if mode == "noise":
        return [[rnd.randint(0, top) for _ in range(w)] for _ in range(h)], mode
    if mode == "zero":
        return [[0] * w for _ in range(h)], mode
    if mode == "max":
        return [[top] * w for _ in range(h)], mode
    if mode == "checker":
        return [[top if (x + y) % 2 else 0 for x in range(w)] for y in range(h)], mode
    if mode == "bytes":
        # every byte of the container different: exposes byte-order / shift slips
        return [[(0x0807060504030201 + 0x0101010101010101 * ((x + y * w) % 200)) & top for x in range(w)] for y in range(h)], mode
    if mode == "pow2":
        def one():
            e = rnd.randint(0, depth)
            return min(top, max(0, (1 << e) + rnd.choice([-1, 0, 1])))
        return [[one() for _ in range(w)] for _ in range(h)], mode
    v = rnd.randint(0, top)
    return [[v] * w for _ in range(h)], mode


def fresh_picture(rnd, vp, pcm, pic_num):
    layout = own_layout(vp, pcm)
    pic = {"pic_num": pic_num}
    modes = []
    for c in COMPONENTS:
        w, h, d, b = layout[c]
        pic[c], m = fill_component(rnd, w, h, d)
        modes.append(m)
    return pic, modes


def change_samples(rnd, pic, layout, comps, tiny=False):
    out = {"pic_num": pic["pic_num"]}
    for c in COMPONENTS:
        out[c] = [list(r) for r in pic[c]]
    for c in comps:
        w, h, depth, bps = layout[c]
        top = (1 << depth) - 1
        n = w * h
        k = rnd.choice([1, 1, 2, 3, rnd.randint(1, n), n])
        k = 1 if tiny else min(k, n)
        for pos in rnd.sample(range(n), k):
            y, x = divmod(pos, w)
            old = out[c][y][x]
            how = "pm1" if tiny else rnd.choice(["pm1", "topbit", "random", "lowbyte_same"])
            new = old
            if how == "pm1":
                new = old + rnd.choice([-1, 1])
            elif how == "topbit":
                new = old ^ (1 << (depth - 1))
            elif how == "lowbyte_same" and depth > 8:
                new = old ^ (rnd.randint(1, (1 << (depth - 8)) - 1) << 8)
            else:
                new = rnd.randint(0, top)
            if new < 0 or new > top or new == old:
                new = old ^ 1  # depth >= 1: always in range and different
            out[c][y][x] = new
    return out


def has_empty_component(vp, pcm):
    return any(w < 1 or h < 1 for (w, h, d, b) in own_layout(vp, pcm).values())


def build_case(p):
    """Plain-JSON case data from drawn parameters (deterministic in p)."""
    rnd = random.Random(p["seed"])
    vp, pcm = p["vp"], p["pcm"]
    layout = own_layout(vp, pcm)
    pic, modes = fresh_picture(rnd, vp, pcm, p["pic_num"])
    a = {"vp": vp, "pcm": pcm, "pic": pic}
    variant = p["variant"]
    data = {"a": a, "variant": variant, "fill": modes}
    b = {"vp": dict(vp), "pcm": pcm, "pic": pic}
    if variant in ("missing_a", "missing_b"):
        data["missing_json"] = variant[-1]
    if variant in ("samples_one", "samples_tiny", "samples_multi", "samples_missing", "padding_samples"):
        if variant in ("samples_one", "samples_tiny"):
            comps = [rnd.choice(COMPONENTS)]
        else:
            comps = rnd.choice([["Y", "C1"], ["Y", "C2"], ["C1", "C2"], ["Y", "C1", "C2"], [rnd.choice(COMPONENTS)]])
        b["pic"] = change_samples(rnd, pic, layout, comps, tiny=(variant == "samples_tiny"))
        data["changed"] = comps
        if variant == "samples_missing":
            data["missing_json"] = rnd.choice(["a", "b"])
    if variant in ("padding", "padding_samples"):
        data["b_writer"] = "harness"
        junk = {}
        for c in COMPONENTS:
            w, h, d, bps = layout[c]
            room = 8 * bps - d
            kind = rnd.choice(["all", "noise", "lowest"])
            def j():
                if room == 0:
                    return 0
                if kind == "all":
                    return (1 << room) - 1
                if kind == "lowest":
                    return 1
                return rnd.randint(0, (1 << room) - 1)
            junk[c] = [[j() for _ in range(w)] for _ in range(h)]
        data["b_junk"] = junk
    if variant == "meta_picnum":
        old = pic["pic_num"]
        new = rnd.choice([old + 1, old - 1, old ^ (1 << 31), rnd.randint(0, U32), old + (1 << 24)])
        if not 0 <= new <= U32 or new == old:
            new = old ^ 1
        b["pic"] = dict(pic, pic_num=new)
    if variant == "meta_pcm":
        if has_empty_component(vp, 1 - pcm):
            variant = "meta_field"  # cannot halve the height: change a field instead
            data["variant"] = variant
        else:
            b["pcm"] = 1 - pcm
    if variant == "meta_field":
        for _ in range(20):
            k = rnd.choice(VP_KEYS)
            nv = dict(vp)
            old = vp[k]
            if k == "top_field_first":
                nv[k] = not old
            elif k in ENUMS:
                nv[k] = rnd.choice([int(m) for m in ENUMS[k] if int(m) != old])
            elif k in ("luma_excursion", "color_diff_excursion"):
                d = old.bit_length()
                cand = [old + 1, old - 1, rnd.randint(1 << (d - 1), (1 << d) - 1),
                        rnd.randint(1, (1 << rnd.choice(SPECIAL_DEPTHS)) - 1)]
                nv[k] = rnd.choice([c for c in cand if 1 <= c < (1 << 64) and c != old] or [old + 1 if old + 1 < (1 << 64) else old - 1])
            elif k in ("frame_width", "frame_height"):
                nv[k] = rnd.choice([v for v in range(1, 13) if v != old] + [old + 1, old + 2])
            else:
                nv[k] = rnd.choice([v for v in (old + 1, old - 1, old + (1 << 32), rnd.randint(0, U32)) if v >= 0 and v != old])
            if not has_empty_component(nv, pcm):
                b["vp"] = nv
                data["changed_field"] = k
                break
        else:
            b["vp"] = dict(vp, frame_rate_numer=vp["frame_rate_numer"] + 1)
            data["changed_field"] = "frame_rate_numer"
    if own_layout(b["vp"], b["pcm"]) != layout:
        # the second file must be a well-formed picture of *its* format
        b["pic"], _ = fresh_picture(rnd, b["vp"], b["pcm"], b["pic"]["pic_num"])
    data["b"] = b
    return data


# --------------------------------------------------------------------------


def shards(tier):
    return [("hyp", k) for k in range(16)]


def _summary(data, res):
    a = data["a"]
    la = own_layout(a["vp"], a["pcm"])
    out = {
        "variant": data["variant"], "video_parameters": a["vp"], "picture_coding_mode": a["pcm"],
        "picture_number": a["pic"]["pic_num"], "layout_w_h_depth_bytes": {c: list(la[c]) for c in COMPONENTS},
        "first_row_Y": a["pic"]["Y"][0][:4], "fill": data.get("fill"),
    }
    for k in ("changed", "changed_field", "missing_json", "b_writer"):
        if k in data:
            out[k] = data[k]
    if res is not None:
        out["expected_identical"], out["exit_code"], out["own_counts"], out["tool_output"] = res
    return out


def run_shard(spec, ctx):
    from vc2_conformance import file_format as FF
    from vc2_conformance.scripts import vc2_picture_compare as CMP

    tmp = tempfile.mkdtemp(prefix="vpbt-c23-", dir="/tmp")
    try:
        seen = [0]

        def body(p, col):
            seen[0] += 1
            data = build_case(p)
            ok, res = check_case(data, col, tmp, FF, CMP)
            la = own_layout(data["a"]["vp"], data["a"]["pcm"])
            ld, cd = la["Y"][2], la["C1"][2]
            odd = any(d % 8 != 0 or d > 16 for d in (ld, cd))
            variant = data["variant"]
            confined = len(data.get("changed", ["x"])) == 1
            labels = ["variant:" + variant, "luma_depth:" + depth_class(ld), "chroma_depth:" + depth_class(cd),
                      "luma_bytes:%d" % la["Y"][3], "chroma_bytes:%d" % la["C1"][3],
                      "subsampling:%d" % data["a"]["vp"]["color_diff_format_index"], "coding_mode:%d" % data["a"]["pcm"]]
            if "changed" in data:
                labels.append("components_changed:" + "+".join(data["changed"]))
            if "changed_field" in data:
                labels.append("field_changed:" + data["changed_field"])
            if res is not None:
                labels.append("exit_code:%r" % (res[1],))
                labels.append("expected:" + ("identical" if res[0] else "different"))
            if data["a"]["pic"]["pic_num"] >= (1 << 31):
                labels.append("pic_num>=2^31")
            col.case(key=hash64(json.dumps(data, sort_keys=True)), nontrivial=odd and confined, labels=labels,
                     sample=(lambda: _summary(data, res)) if seen[0] > 25 and seen[0] % 7 == 0 else None)

        run_given(case_params(), body, ctx, ctx.pick(320, 70000))
    finally:
        shutil.rmtree(tmp, ignore_errors=True)


def replay(data, col):
    from vc2_conformance import file_format as FF
    from vc2_conformance.scripts import vc2_picture_compare as CMP

    tmp = tempfile.mkdtemp(prefix="vpbt-c23-replay-", dir="/tmp")
    try:
        check_case(data, col, tmp, FF, CMP)
        col.evaluations += 1
    finally:
        shutil.rmtree(tmp, ignore_errors=True)
