"""C08 — bitstream deserialiser and validator read identical content."""

from vpbt.core import run_given
from vpbt.gen import configs as G
from vpbt.gen import corpus as C
from vpbt.gen import streams as S
from vpbt.props import _decode as DEC

ID = "C08"
LEVEL = "exploration"
RULE = (
    "Conformant streams: encoder output for valid random configurations (C03 generator, frames <= 20 (32) px) with, by a drawn "
    "plan, slice payloads re-packed in place (small / sparse / extreme / huge coefficient values, LD values dangling past the "
    "bounded block, random bounded-block padding bits, random qindex up to 127/255, slack in length fields) and padding/auxiliary "
    "units with random payload inserted; one shard in four builds streams of 2-3 concatenated sequences, the later ones mostly "
    "'siblings' of the first (same transform and slice parameters, other picture size / chroma format / coding mode). Only streams the validator accepts are judged. Oracle: the validator is run with "
    "decoder.stream.picture_decode rebound to a recorder of the decoded transform arrays; the Deserialiser's description of the same "
    "bytes is turned by the harness' own model (table lookup of video format, own slice geometry, own dequantiser and DC prediction) "
    "into transform arrays which must equal the recorded ones element-wise, together with the data-unit parse codes/offsets, video "
    "parameters, transform and slice parameters, quantisation matrix and picture numbers; the '_state' snapshot attached to every block of slices must show that unit's own parameter values. Non-trivial = stream with non-zero "
    "coefficients in >= 2 subbands of some picture; distinct by byte hash."
)
ASSUMPTIONS = [
    "State capture by rebinding decoder.stream.picture_decode in-process (no source hook).",
    "Quantisation matrices of non-custom pictures are looked up in vc2_data_tables.QUANTISATION_MATRICES by the harness.",
]


def compare_arrays(model, rec, data, col, pi):
    """model: {comp:{level:{orient:2D}}} vs recorded state transforms."""
    nz_bands = 0
    for comp, key in (("Y", "y"), ("C1", "c1"), ("C2", "c2")):
        got = rec[key]
        want = model[comp]
        if sorted(got.keys()) != sorted(want.keys()):
            col.fail("levels-differ", data, "picture %d %s: validator decoded levels %r, description implies %r" % (pi, comp, sorted(got), sorted(want)))
            return 0
        for level in want:
            if sorted(got[level].keys()) != sorted(want[level].keys()):
                col.fail("orients-differ", data, "picture %d %s level %d: orientations differ" % (pi, comp, level))
                return 0
            for o in want[level]:
                a = [list(r) for r in got[level][o]]
                b = want[level][o]
                if a != b:
                    where = None
                    if len(a) != len(b) or (a and len(a[0]) != len(b[0])):
                        where = "shape %dx%d vs %dx%d" % (len(a[0]) if a else 0, len(a), len(b[0]) if b else 0, len(b))
                    else:
                        for y in range(len(a)):
                            for x in range(len(a[y])):
                                if a[y][x] != b[y][x]:
                                    where = "(x=%d,y=%d): validator %d, deserialiser-derived %d" % (x, y, a[y][x], b[y][x])
                                    break
                            if where:
                                break
                    col.fail("coefficients-differ", data, "picture %d %s level %d %s differs at %s" % (pi, comp, level, o, where))
                    return 0
                if comp == "Y" and any(v for r in b for v in r):
                    nz_bands += 1
    return nz_bands


def check_state_snapshots(desc, data, col):
    """The deserialiser attaches a snapshot of its parser state ('_state') to every block of slices so that
    tools can work out where the coefficients belong: each snapshot must show the parameter values that were in
    force for THAT data unit (the values the validator used), not those of a later unit."""
    for si, seq in enumerate(desc["sequences"]):
        tp = None
        for ui, du in enumerate(seq["data_units"]):
            snap = None
            want = {"parse_code": int(du["parse_info"]["parse_code"])}
            if "picture_parse" in du:
                wt = du["picture_parse"]["wavelet_transform"]
                tp = wt["transform_parameters"]
                snap = wt["transform_data"].get("_state")
                want["picture_number"] = du["picture_parse"]["picture_header"]["picture_number"]
            elif "fragment_parse" in du:
                fp = du["fragment_parse"]
                fh = fp["fragment_header"]
                if fh["fragment_slice_count"] == 0:
                    tp = fp["transform_parameters"]
                    continue
                snap = fp["fragment_data"].get("_state")
                want.update(picture_number=fh["picture_number"], fragment_slice_count=fh["fragment_slice_count"],
                            fragment_x_offset=fh["fragment_x_offset"], fragment_y_offset=fh["fragment_y_offset"])
            else:
                continue
            if snap is None or tp is None:
                col.fail("state-snapshot-missing", data, "sequence %d unit %d: no _state snapshot" % (si, ui))
                continue
            sp = tp["slice_parameters"]
            want.update(slices_x=sp["slices_x"], slices_y=sp["slices_y"], dwt_depth=tp["dwt_depth"], wavelet_index=int(tp["wavelet_index"]))
            bad = {k: (snap.get(k), v) for k, v in want.items() if snap.get(k) is None or int(snap.get(k)) != int(v)}
            if bad:
                col.fail("state-snapshot-stale", data, "sequence %d unit %d: _state snapshot disagrees with the unit's own headers "
                         "(snapshot, header): %r" % (si, ui, bad))
                return


def check(cf, specs, nums, plan, col):
    return check_parts([(cf, specs, nums, plan)], col)


def check_parts(parts, col):
    """parts: one (cf, specs, nums, plan) per sequence; the sequences are serialised separately and concatenated"""
    from vc2_conformance.encoder.exceptions import UnsatisfiableCodecFeaturesError

    data = DEC.case_json(*parts[0]) if len(parts) == 1 else {"multi": [DEC.case_json(*p) for p in parts]}
    facts = {"outcome": "judged", "nz": 0}
    blob = b""
    for part in parts:
        try:
            b, rfacts, pictures = DEC.build_stream(*part)
        except UnsatisfiableCodecFeaturesError:
            facts["outcome"] = "rejected_by_encoder"
            return facts
        except Exception as e:
            facts["outcome"] = "not_serialisable:" + type(e).__name__
            return facts
        blob += b
        for k, v in rfacts.items():
            facts[k] = facts.get(k) or v
    records = []
    try:
        with DEC.capture_decoder_state(records):
            v = S.validate(blob)
    except Exception as e:
        col.fail(col.crash_bucket(e, "validate"), data, "validator raised %s: %s" % (type(e).__name__, str(e)[:200]))
        return facts
    if v.error is not None:
        facts["outcome"] = "variant_not_conformant:" + type(v.error).__name__
        return facts
    try:
        desc = C.deserialise(blob)
    except Exception as e:
        col.fail(col.crash_bucket(e, "deserialise"), data, "deserialiser raised %s on a stream the validator accepts: %s" % (type(e).__name__, str(e)[:200]))
        return facts
    check_state_snapshots(desc, data, col)
    pics, units = DEC.pictures_from_description(desc)
    if len(pics) != len(records):
        col.fail("picture-count", data, "deserialiser sees %d pictures, validator decoded %d" % (len(pics), len(records)))
        return facts
    for pi, (pic, rec) in enumerate(zip(pics, records)):
        try:
            model, vp, params = DEC.model_transforms(pic)
        except (ValueError, IndexError, KeyError) as e:
            # the deserialised slices do not fit the geometry implied by the deserialised headers
            col.fail("coefficient-count", data, "picture %d: deserialised slice contents do not fit the picture geometry (%s: %s)" % (pi, type(e).__name__, e))
            return facts
        if pic["picture_number"] != rec["params"]["picture_number"]:
            col.fail("picture-number", data, "picture %d: deserialiser number %r, validator %r" % (pi, pic["picture_number"], rec["params"]["picture_number"]))
        rvp = {k: (int(v) if not isinstance(v, bool) else v) for k, v in rec["video_parameters"].items()}
        mvp = {k: (int(v) if not isinstance(v, bool) else v) for k, v in vp.items()}
        if rvp != mvp:
            diff = {k: (mvp.get(k), rvp.get(k)) for k in set(mvp) | set(rvp) if mvp.get(k) != rvp.get(k)}
            col.fail("video-parameters", data, "picture %d: header values differ (deserialiser-derived, validator): %r" % (pi, diff))
        for k, want in params.items():
            got = rec["params"].get(k)
            if got is None or int(got) != int(want):
                col.fail("parameter:" + k, data, "picture %d: %s is %r for the deserialiser, %r for the validator" % (pi, k, want, got))
        m = DEC.matrix_for(pic["tp"])[0]
        if {l: dict(o) for l, o in m.items()} != {l: dict(o) for l, o in (rec["quant_matrix"] or {}).items()}:
            col.fail("quant-matrix", data, "picture %d: quantisation matrix differs" % pi)
        sp = pic["tp"]["slice_parameters"]
        for k in (("slice_bytes_numerator", "slice_bytes_denominator") if pic["ld"] else ("slice_prefix_bytes", "slice_size_scaler")):
            if int(sp[k]) != int(rec["params"].get(k, -1)):
                col.fail("parameter:" + k, data, "picture %d: %s differs" % (pi, k))
        facts["nz"] = max(facts["nz"], compare_arrays(model, rec, data, col, pi))
    return facts


def body(case, col):
    cf, specs, nums, plan = case
    facts = check(cf, specs, nums, plan, col)
    lab = G.labels(cf) + [facts["outcome"].split(":")[0], "repack:" + plan["mode"], "q:" + plan["qmode"]]
    if facts.get("dangling"):
        lab.append("has_dangling")
    if facts.get("padding_bits"):
        lab.append("has_padding_bits")
    col.case(key=(G.config_key(cf), tuple(specs), repr(plan)), nontrivial=facts["outcome"] == "judged" and facts["nz"] >= 2,
             labels=lab, sample=lambda: DEC.case_json(cf, specs, nums, plan))
    if ":" in facts["outcome"]:
        col.count(facts["outcome"])


def body_multi(parts, col):
    facts = check_parts(parts, col)
    lab = ["multi_sequence", "sequences:%d" % len(parts), facts["outcome"].split(":")[0]]
    sibling = any(all(p[0][k] == parts[0][0][k] for k in ("slices_x", "slices_y", "dwt_depth", "dwt_depth_ho", "wavelet_index"))
                  and p[0]["video_parameters"] != parts[0][0]["video_parameters"] for p in parts[1:])
    if sibling:
        lab.append("sibling_formats")
    col.case(key=tuple((G.config_key(p[0]), tuple(p[1]), repr(p[3])) for p in parts),
             nontrivial=facts["outcome"] == "judged" and facts["nz"] >= 2, labels=lab,
             sample=lambda: {"multi": [DEC.case_json(*p) for p in parts]})
    if ":" in facts["outcome"]:
        col.count(facts["outcome"])


def shards(tier):
    return list(range(16 if tier == "quick" else 64))


def run_shard(spec, ctx):
    if ctx.shard_index % 4 == 1:
        # multi-sequence streams (one deserialiser / one validator state across sequences of different formats)
        return run_given(DEC.multi_cases(thorough=ctx.thorough), body_multi, ctx, ctx.pick(60, 130))
    run_given(DEC.cases(thorough=ctx.thorough), body, ctx, ctx.pick(120, 260))


def replay(data, col):
    if "multi" in data:
        return body_multi([DEC.case_from_json(d) for d in data["multi"]], col)
    body(DEC.case_from_json(data), col)
