"""C11 — forward/inverse wavelet transforms reconstruct exactly; dwt subband shapes
equal the subband dimensions used by the slice geometry."""

import random

from hypothesis import strategies as st

from vpbt.core import run_given
from vpbt.oracles.slice_geometry import subband_sizes

ID = "C11"
LEVEL = "exploration"
RULE = (
    "Case = (vertical filter 0..6, horizontal filter 0..6, dwt_depth 0..4, dwt_depth_ho 0..4, component "
    "Y/C1/C2, integer picture of 1..20 x 1..20 samples); the other component is given a different size so a "
    "component mix-up shows. Enumerated part: every one of the 49 x 25 filter-pair/depth combinations with R "
    "pictures each (quick R=3, thorough R=80; sizes and contents from random.Random seeded by VERIF_SEED and the "
    "combination index; one of the R sizes is 1..5). Generated part: Hypothesis draws all parameters; picture "
    "kinds: noise, constant, single impulse, ramp, +-extreme checkerboard, explicit <=4x4 picture tiled from 4 drawn integers up to 2^64; "
    "magnitudes: +-4, 10 bit, +-2^15, +-2^40, +-2^200. Oracle: idwt_pad_removal(idwt(dwt(dwt_pad_addition(p)))) == p, and the same through the whole-picture entry points forward_wavelet_transform / inverse_wavelet_transform (other components 1x1) "
    "element-wise on Python ints; the padded picture has the harness model's padded size; dwt returns exactly the "
    "subbands LL|L, H per horizontal-only level, HL/LH/HH per 2-D level, each with height x width equal to "
    "subband_height/subband_width of slice_sizes.py and to the harness's padded-size-halving model. Padding sample "
    "values are not examined (free choice). Non-trivial = depth >= 1 in some dimension and a non-constant "
    "picture; distinct by hash of (filters, depths, component, picture contents)."
)
ASSUMPTIONS = [
    "Pictures are rectangular lists of lists of Python ints with at least one row and column; depths 0..4 "
    "per dimension (documented limit); wavelet indices are the seven of the standard.",
    "The dwt subband shapes are compared both with the repository's subband_width/height (the property's "
    "statement) and with the harness's own model (shared with C13).",
]

COMPS = ("Y", "C1", "C2")
MAGS = {"tiny": 4, "10bit": 512, "2^15": 1 << 15, "2^40": 1 << 40, "big": 1 << 200}
KINDS = ("noise", "noise", "noise", "constant", "impulse", "ramp", "checker", "explicit")
N_COMBOS = 7 * 7 * 5 * 5


def EXHAUSTIVE(tier):
    return False


def shards(tier):
    out = [("enum", k, 16) for k in range(16)]
    out += [("hyp", k) for k in range(16)]
    return out


# ---------------------------------------------------------------------------


def build_picture(kind, mag, w, h, seed, flat):
    m = MAGS[mag]
    rnd = random.Random(seed)
    if kind == "explicit":
        w, h = min(w, 4), min(h, 4)
        return [[flat[y * 4 + x] for x in range(w)] for y in range(h)]
    if kind == "noise":
        return [[rnd.randint(-m, m - 1) for _ in range(w)] for _ in range(h)]
    if kind == "constant":
        v = rnd.choice([0, -m, m - 1, rnd.randint(-m, m - 1)])
        return [[v] * w for _ in range(h)]
    if kind == "impulse":
        pic = [[0] * w for _ in range(h)]
        pic[rnd.randrange(h)][rnd.randrange(w)] = rnd.choice([-m, m - 1, 1, -1])
        return pic
    if kind == "ramp":
        step = max(1, (2 * m) // (w * h))
        return [[-m + step * (y * w + x) for x in range(w)] for y in range(h)]
    if kind == "checker":
        return [[(m - 1) if (x + y) % 2 else -m for x in range(w)] for y in range(h)]
    raise ValueError(kind)


KIND_BY_SELECTOR = ("noise", "noise", "noise", "noise", "noise", "constant", "impulse", "impulse",
                    "ramp", "checker", "explicit", "explicit")


def make_case(wi, wih, d, dho, w, h, comp, kind, mag, seed, flat):
    return {
        "wavelet_index": wi, "wavelet_index_ho": wih, "dwt_depth": d, "dwt_depth_ho": dho,
        "comp": comp, "kind": kind, "mag": "2^64" if kind == "explicit" else mag,
        "picture": build_picture(kind, mag, w, h, seed, flat),
    }


def drawn_case(wi, wih, d, dho, w, h, comp, selector, mag, seed, vals):
    kind = KIND_BY_SELECTOR[selector]
    if kind == "explicit":
        # <= 4x4 picture tiled from the four drawn integers (shrinks well)
        w, h = (w - 1) % 4 + 1, (h - 1) % 4 + 1
        flat = [vals[(y * w + x + (y // 2)) % 4] for y in range(4) for x in range(4)]
        return make_case(wi, wih, d, dho, w, h, comp, kind, mag, 0, flat)
    # every drawn value feeds the picture, so that Hypothesis' mutations do not produce duplicates
    return make_case(wi, wih, d, dho, w, h, comp, kind, mag, repr((seed, vals)), None)


def case_strategy():
    filt = st.integers(0, 6)
    depth = st.integers(0, 4)
    size = st.integers(1, 20)
    return st.builds(drawn_case, filt, filt, depth, depth, size, size, st.sampled_from(COMPS),
                     st.integers(0, len(KIND_BY_SELECTOR) - 1), st.sampled_from(sorted(MAGS)),
                     st.integers(0, (1 << 32) - 1),
                     st.lists(st.integers(-(1 << 64), 1 << 64), min_size=4, max_size=4))


def make_state(case):
    pic = case["picture"]
    h, w = len(pic), len(pic[0])
    state = {
        "wavelet_index": case["wavelet_index"], "wavelet_index_ho": case["wavelet_index_ho"],
        "dwt_depth": case["dwt_depth"], "dwt_depth_ho": case["dwt_depth_ho"],
    }
    if case["comp"] == "Y":
        state.update(luma_width=w, luma_height=h, color_diff_width=w + 3, color_diff_height=h + 2)
    else:
        state.update(luma_width=w + 3, luma_height=h + 2, color_diff_width=w, color_diff_height=h)
    return state


def shape_of(a):
    """(height, width) of a 2-D list, or None if ragged / not a list of lists."""
    try:
        widths = set(len(r) for r in a)
    except TypeError:
        return None
    if len(widths) != 1:
        return None
    return (len(a), widths.pop())


def expected_orients(level, dho):
    if level == 0:
        return {"LL"} if dho == 0 else {"L"}
    if level <= dho:
        return {"H"}
    return {"HL", "LH", "HH"}


def replay_data(case):
    return {k: case[k] for k in ("wavelet_index", "wavelet_index_ho", "dwt_depth", "dwt_depth_ho", "comp", "picture")}


def check_case(mods, case, col):
    """Returns True when the round trip ran to the end (whatever the verdict)."""
    PE, PD, S = mods
    original = case["picture"]
    comp = case["comp"]
    d, dho = case["dwt_depth"], case["dwt_depth_ho"]
    h, w = len(original), len(original[0])
    data = replay_data(case)
    state = make_state(case)
    model = subband_sizes(w, h, d, dho)
    top = d + dho
    desc = "filters v=%d h=%d, dwt_depth=%d, dwt_depth_ho=%d, %s %dx%d" % (
        case["wavelet_index"], case["wavelet_index_ho"], d, dho, comp, w, h)
    try:
        pic = [row[:] for row in original]
        PE.dwt_pad_addition(state, pic, comp)
        pw, ph = model[top + 1]
        if shape_of(pic) != (ph, pw):
            col.fail("padded-shape", data, "%s: dwt_pad_addition gave shape %r (h,w), padded size is %r"
                     % (desc, shape_of(pic), (ph, pw)))
        coeffs = PE.dwt(state, pic)
        want_levels = set(range(top + 1))
        if set(coeffs) != want_levels:
            col.fail("subband-set", data, "%s: dwt returned levels %r, expected %r"
                     % (desc, sorted(coeffs), sorted(want_levels)))
        for level in sorted(want_levels & set(coeffs)):
            if set(coeffs[level]) != expected_orients(level, dho):
                col.fail("subband-set", data, "%s: level %d has subbands %r, expected %r"
                         % (desc, level, sorted(coeffs[level]), sorted(expected_orients(level, dho))))
            geo = (S.subband_height(state, level, comp), S.subband_width(state, level, comp))
            mod = (model[level][1], model[level][0])
            for orient in sorted(coeffs[level]):
                got = shape_of(coeffs[level][orient])
                if got != geo:
                    col.fail("shape-vs-slice-geometry", data,
                             "%s: dwt subband level %d %s has shape %r (h,w); subband_height/width give %r"
                             % (desc, level, orient, got, geo))
                if got != mod:
                    col.fail("shape-vs-model", data,
                             "%s: dwt subband level %d %s has shape %r (h,w); padded-size halving gives %r"
                             % (desc, level, orient, got, mod))
        out = PD.idwt(state, coeffs)
        PD.idwt_pad_removal(state, out, comp)
    except Exception as e:
        col.fail(col.crash_bucket(e), data, "%s: %s: %s" % (desc, type(e).__name__, e))
        return False
    # the same round trip through the whole-picture entry points the encoder and decoder use (15.3): the other two
    # components are 1x1 so that the cost stays with the component under test
    try:
        state2 = dict(state)
        if comp == "Y":
            state2.update(color_diff_width=1, color_diff_height=1)
        else:
            state2.update(luma_width=1, luma_height=1)
        current = {c: ([row[:] for row in original] if c == comp else [[0]]) for c in ("Y", "C1", "C2")}
        PE.forward_wavelet_transform(state2, current)
        key = {"Y": "y_transform", "C1": "c1_transform", "C2": "c2_transform"}[comp]
        for level in sorted(state2[key]):
            for orient in sorted(state2[key][level]):
                got = shape_of(state2[key][level][orient])
                if level in model and got != (model[level][1], model[level][0]):
                    col.fail("shape-vs-model", data, "%s: forward_wavelet_transform subband level %d %s has shape %r (h,w); "
                             "padded-size halving gives %r" % (desc, level, orient, got, (model[level][1], model[level][0])))
        state2["current_picture"] = {}
        PD.inverse_wavelet_transform(state2)
        out2 = state2["current_picture"][comp]
    except Exception as e:
        col.fail(col.crash_bucket(e, "whole-picture"), data, "%s: forward/inverse_wavelet_transform: %s: %s" % (desc, type(e).__name__, e))
        return False
    if out2 != original:
        col.fail("roundtrip-whole-picture", data, "%s: forward_wavelet_transform + inverse_wavelet_transform do not reconstruct the "
                 "picture (shape %r, expected %r)" % (desc, shape_of(out2), (h, w)))
    if out != original:
        where = "shape %r instead of %r" % (shape_of(out), (h, w))
        if shape_of(out) == (h, w):
            for y in range(h):
                for x in range(w):
                    if out[y][x] != original[y][x]:
                        where = "first difference at y=%d x=%d: %r instead of %r" % (y, x, out[y][x], original[y][x])
                        break
                else:
                    continue
                break
        col.fail("roundtrip", data, "%s: picture not reconstructed, %s" % (desc, where))
    elif any(type(v) is not int for row in out for v in row):
        col.fail("non-int", data, "%s: reconstructed picture holds non-int values" % desc)
    return True


def labels_of(case, prefix):
    pic = case["picture"]
    h, w = len(pic), len(pic[0])
    d, dho = case["dwt_depth"], case["dwt_depth_ho"]
    lab = [prefix + "_case"]
    if d == 0 and dho == 0:
        lab.append("depth_none")
    elif dho == 0:
        lab.append("depth_2d_only")
    elif d == 0:
        lab.append("depth_horizontal_only")
    else:
        lab.append("depth_2d_and_horizontal_only")
    lab.append("filters_equal" if case["wavelet_index"] == case["wavelet_index_ho"] else "filters_differ")
    if w % (2 ** (d + dho)) or h % (2 ** d):
        lab.append("needs_padding")
    if w == 1 or h == 1:
        lab.append("one_sample_wide_or_high")
    lab.append("component_" + case["comp"])
    lab.append("kind_" + case["kind"])
    lab.append("magnitude_" + case["mag"])
    return lab


def is_nontrivial(case):
    pic = case["picture"]
    first = pic[0][0]
    constant = all(v == first for row in pic for v in row)
    return (case["dwt_depth"] + case["dwt_depth_ho"] >= 1) and not constant


def record(case, col, prefix, want_sample):
    col.case(
        key=(case["wavelet_index"], case["wavelet_index_ho"], case["dwt_depth"], case["dwt_depth_ho"],
             case["comp"], case["picture"]),
        nontrivial=is_nontrivial(case), labels=labels_of(case, prefix),
        sample=(lambda: dict(replay_data(case), kind=case["kind"], magnitude=case["mag"])) if want_sample else None)


def load_mods():
    from vc2_conformance.pseudocode import picture_encoding as PE
    from vc2_conformance.pseudocode import picture_decoding as PD
    from vc2_conformance.pseudocode import slice_sizes as S

    return PE, PD, S


def run_shard(spec, ctx):
    mods = load_mods()
    col = ctx.col
    if spec[0] == "enum":
        _, k, n = spec
        rounds = ctx.pick(3, 56)
        for idx in range(N_COMBOS):
            if idx % n != k:
                continue
            wi, wih, d, dho = idx % 7, (idx // 7) % 7, (idx // 49) % 5, idx // 245
            for r in range(rounds):
                rnd = random.Random((ctx.base_seed * N_COMBOS + idx) * 64 + r)
                hi = 5 if r == 0 else 20
                w, h = rnd.randint(1, hi), rnd.randint(1, hi)
                kind = rnd.choice(KINDS[:-1])
                mag = rnd.choice(sorted(MAGS))
                case = make_case(wi, wih, d, dho, w, h, COMPS[(idx + r) % 3], kind, mag, rnd.getrandbits(32), None)
                check_case(mods, case, col)
                # small enough to print: one sample from two of the shards
                record(case, col, "enumerated", want_sample=(k < 2 and len(col.samples) < 1 and w * h <= 12
                                                             and mag in ("tiny", "10bit")))
        col.count("enumerated_filter_depth_combinations", len(range(k, N_COMBOS, n)))
    elif spec[0] == "hyp":
        def body(case, col):
            check_case(mods, case, col)
            pic = case["picture"]
            record(case, col, "generated", want_sample=(spec[1] < 4 and len(col.samples) < 1
                                                        and len(pic) * len(pic[0]) <= 12
                                                        and case["mag"] in ("tiny", "10bit", "2^15")))

        run_given(case_strategy(), body, ctx, ctx.pick(500, 36000))
    else:
        raise ValueError(spec)


def replay(data, col):
    mods = load_mods()
    case = {
        "wavelet_index": int(data["wavelet_index"]), "wavelet_index_ho": int(data["wavelet_index_ho"]),
        "dwt_depth": int(data["dwt_depth"]), "dwt_depth_ho": int(data["dwt_depth_ho"]),
        "comp": str(data["comp"]), "picture": [[int(v) for v in row] for row in data["picture"]],
    }
    col.evaluations += 1
    check_case(mods, case, col)
