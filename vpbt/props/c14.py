"""C14 — lossy encoding fills slices to the byte budget with the smallest qindex."""

from fractions import Fraction
from io import BytesIO

from hypothesis import strategies as st

from vc2_data_tables import PictureCodingModes, Profiles

from vpbt.core import run_given
from vpbt.gen import configs as G
from vpbt.gen import pictures as P
from vpbt.gen import streams as S
from vpbt.oracles import sizes as Z

ID = "C14"
LEVEL = "exploration"
RULE = (
    "Hypothesis draws lossy LD and HQ configurations (same constructor as C03; picture_bytes classes: minimum, minimum+1, "
    "near minimum, mid, big, and values placing an HQ length field at the 255/256 slice-size-scaler boundary), a "
    "minimum_qindex override (0, 1-20, or a per-picture list) and minimum_slice_size_scaler 1-4, with 1-2 noise/extreme "
    "pictures. Oracle (harness size model: own exp-Golomb lengths, own quantiser, trailing zeros free): for every slice the "
    "coded size at the chosen qindex fits the slice budget, at qindex-1 it does not (when qindex > requested minimum), qindex >= "
    "minimum, the description's coefficients equal the harness' quantisation of the unquantised coefficients, length fields <= 255 "
    "(HQ) / qindex <= 127 and slice_y_length fits its field (LD), slice budgets differ by at most one unit, the serialised slice "
    "region measured in the output bytes is exactly picture_bytes (LD) or within slice_size_scaler of it (HQ), and the validator "
    "accepts. Non-trivial = at least one slice has qindex > requested minimum (the search happened); distinct by (config, pictures, overrides) hash."
)
ASSUMPTIONS = [
    "Unquantised per-slice coefficients are taken from encoder.pictures.transform_and_slice_picture (transform/slicing correctness is C04/C11/C13's subject).",
    "Slice region offsets are measured with the repository's MonitoredDeserialiser on the serialised bytes.",
    "Budgets with no representable qindex (harness model) are out of domain (DESIGN 7.9).",
]


@st.composite
def cases(draw, thorough=False):
    profile = draw(st.sampled_from([Profiles.low_delay, Profiles.high_quality]))
    cf = draw(G.codec_features(profile=profile, lossless=False, max_size=24 if not thorough else 40,
                               max_depth_bits=12 if not thorough else 16, fragments=True))
    ns = cf["slices_x"] * cf["slices_y"]
    # extra budget class: HQ slices near the 255-byte length-field limit
    if profile == Profiles.high_quality and draw(st.integers(0, 4)) == 0:
        k = draw(st.integers(1, 3))
        cf["picture_bytes"] = ns * (4 + 255 * k) + draw(st.integers(-ns - 2, ns + 2))
    fields = cf["picture_coding_mode"] == PictureCodingModes.pictures_are_fields
    specs = draw(P.picture_specs(1, 2, even=fields))
    mq_kind = draw(st.sampled_from(["zero", "zero", "const", "list"]))
    if mq_kind == "zero":
        mq = 0
    elif mq_kind == "const":
        mq = draw(st.integers(1, 20))
    else:
        mq = [draw(st.integers(0, 20)) for _ in specs]
    mss = draw(st.sampled_from([1, 1, 2, 3, 4]))
    return cf, specs, mq, mss


def case_json(cf, specs, mq, mss):
    return {"config": G.config_json(cf), "specs": [list(s) for s in specs], "minimum_qindex": mq,
            "minimum_slice_size_scaler": mss}


def bitpos(tell):
    return tell[0] * 8 + (7 - tell[1])


def slice_regions(blob):
    """[(data_unit_index, region_bits)] for every data unit carrying slices, measured in the byte stream."""
    from vc2_conformance.bitstream import BitstreamReader, MonitoredDeserialiser, parse_stream
    from vc2_conformance.pseudocode.state import State

    events = []

    def monitor(des, target, value):
        if target in ("qindex", "parse_info_prefix", "prefix_bytes"):
            events.append((target, bitpos(des.io.tell()), value))

    reader = BitstreamReader(BytesIO(blob))
    with MonitoredDeserialiser(monitor, reader) as des:
        parse_stream(des, State())
    return events, des.context


def check_case(cf, specs, mq, mss, col):
    from vc2_conformance.bitstream.exceptions import OutOfRangeError
    from vc2_conformance.encoder.exceptions import UnsatisfiableCodecFeaturesError
    from vc2_conformance.encoder.pictures import transform_and_slice_picture

    data = case_json(cf, specs, mq, mss)
    pictures = P.build_pictures(cf, specs, None)
    facts = {"outcome": "checked", "searched": False}
    ld = cf["profile"] == Profiles.low_delay
    from vpbt.core import CpuTimeout, cpu_limit

    try:
        # once a non-terminating call has been recorded, later ones are cut short (the shard must still finish)
        with cpu_limit(120 if "encoder-no-result-within-120s-cpu" not in col.failures else 5):
            blob, seq = S.encode(cf, pictures, minimum_qindex=mq, minimum_slice_size_scaler=mss)
    except CpuTimeout:
        col.fail("encoder-no-result-within-120s-cpu", data, "make_sequence/serialisation did not finish within 120 s of CPU time")
        facts["outcome"] = "failed"
        return facts
    except UnsatisfiableCodecFeaturesError as e:
        facts["outcome"] = "rejected:" + type(e).__name__
        return facts
    except OutOfRangeError as e:
        if not Z.budget_representable(cf, pictures) or (ld and (mq if isinstance(mq, int) else max(mq)) > 127):
            facts["outcome"] = "unrepresentable_budget"
            return facts
        col.fail(col.crash_bucket(e, "encode"), data, "serialisation raised %s: %s" % (type(e).__name__, e))
        facts["outcome"] = "failed"
        return facts
    except Exception as e:
        col.fail(col.crash_bucket(e, "encode"), data, "encoder raised %s: %s" % (type(e).__name__, e))
        facts["outcome"] = "failed"
        return facts

    pb = cf["picture_bytes"]
    ns = cf["slices_x"] * cf["slices_y"]
    # group slices per picture, in coded order
    per_picture = []  # [(transform_parameters, [slice,...], [data unit indices])]
    for i, du in enumerate(seq["data_units"]):
        if "picture_parse" in du:
            wt = du["picture_parse"]["wavelet_transform"]
            td = wt["transform_data"]
            per_picture.append((wt["transform_parameters"], list(td.get("ld_slices", [])) + list(td.get("hq_slices", [])), [i]))
        elif "fragment_parse" in du:
            fp = du["fragment_parse"]
            if fp["fragment_header"]["fragment_slice_count"] == 0:
                per_picture.append((fp["transform_parameters"], [], []))
            else:
                fd = fp["fragment_data"]
                per_picture[-1][1].extend(list(fd.get("ld_slices", [])) + list(fd.get("hq_slices", [])))
                per_picture[-1][2].append(i)
    if len(per_picture) != len(pictures):
        col.fail("picture-count", data, "%d pictures coded for %d inputs" % (len(per_picture), len(pictures)))
        return facts

    # measured slice regions from the bytes
    try:
        events, _ = slice_regions(blob)
    except Exception as e:
        col.fail(col.crash_bucket(e, "deserialise"), data, "deserialising encoder output raised %s: %s" % (type(e).__name__, e))
        return facts
    # split events into data units
    du_regions = []
    cur_start = None
    for target, pos, value in events:
        if target == "parse_info_prefix":
            unit_start = pos - 32
            if cur_start is not None:
                du_regions[-1] = unit_start - cur_start
            du_regions.append(None)
            cur_start = None
        elif target == "qindex" and cur_start is None:
            cur_start = pos - (7 if ld else 8)
    region_bits_by_unit = dict((i, r) for i, r in enumerate(du_regions))

    for pi, (tp, slices, units) in enumerate(per_picture):
        minq = mq[pi] if isinstance(mq, list) else mq
        sp = tp["slice_parameters"]
        if len(slices) != ns:
            col.fail("slice-count", data, "picture %d has %d slices, expected %d" % (pi, len(slices), ns))
            continue
        coeffs = transform_and_slice_picture(cf, pictures[pi])
        region = sum(region_bits_by_unit.get(u) or 0 for u in units)
        if ld:
            num, den = sp["slice_bytes_numerator"], sp["slice_bytes_denominator"]
            if den == 0 or Fraction(num, den) != Fraction(pb, ns):
                col.fail("ld-slice-bytes-fraction", data, "slice_bytes %r/%r != picture_bytes/slices %d/%d" % (num, den, pb, ns))
                continue
            if region != 8 * pb:
                col.fail("ld-region-size", data, "picture %d: LD slice region is %d bits, picture_bytes*8 = %d" % (pi, region, 8 * pb))
            for n, s in enumerate(slices):
                sx, sy = n % cf["slices_x"], n // cf["slices_x"]
                sc = coeffs[sy][sx]
                sb = Z.slice_bytes(cf["slices_x"], cf["slices_y"], num, den, sx, sy)
                q = s["qindex"]
                loc = "picture %d slice (%d,%d)" % (pi, sx, sy)
                if sb < 1:
                    col.fail("ld-zero-byte-slice", data, "%s has %d bytes" % (loc, sb))
                    continue
                if q < minq:
                    col.fail("q-below-minimum", data, "%s qindex %d < minimum %d" % (loc, q, minq))
                if q > 127:
                    col.fail("ld-qindex-field", data, "%s qindex %d does not fit 7 bits" % (loc, q))
                if not Z.ld_fits(sc, q, sb):
                    col.fail("ld-does-not-fit", data, "%s: coefficients at qindex %d need more than the %d-bit budget" % (loc, q, Z.ld_budget_bits(sb)))
                if q > minq:
                    facts["searched"] = True
                    if Z.ld_fits(sc, q - 1, sb):
                        col.fail("q-not-smallest", data, "%s: qindex %d chosen but %d already fits" % (loc, q, q - 1))
                yq = Z.quantised(sc.Y, q)
                cq = Z.interleave(Z.quantised(sc.C1, q), Z.quantised(sc.C2, q))
                if list(s["y_transform"]) != yq or list(s["c_transform"]) != cq:
                    col.fail("coeffs-differ", data, "%s: coded coefficients differ from the harness' quantisation at qindex %d" % (loc, q))
                fbits = Z.intlog2(8 * sb - 7)
                if s["slice_y_length"] >= (1 << fbits) and not (fbits == 0 and s["slice_y_length"] == 0):
                    col.fail("ld-length-field", data, "%s: slice_y_length %d does not fit %d bits" % (loc, s["slice_y_length"], fbits))
                if s["slice_y_length"] < Z.block_bits(yq):
                    col.fail("ld-y-length-short", data, "%s: slice_y_length %d < %d bits of luma data" % (loc, s["slice_y_length"], Z.block_bits(yq)))
        else:
            scaler = sp["slice_size_scaler"]
            if scaler < max(1, mss):
                col.fail("hq-scaler-below-minimum", data, "slice_size_scaler %d < requested minimum %d" % (scaler, mss))
            prefix = sp["slice_prefix_bytes"]
            total = 0
            budgets = []
            for n, s in enumerate(slices):
                sx, sy = n % cf["slices_x"], n // cf["slices_x"]
                sc = coeffs[sy][sx]
                q = s["qindex"]
                loc = "picture %d slice (%d,%d)" % (pi, sx, sy)
                lens = (s["slice_y_length"], s["slice_c1_length"], s["slice_c2_length"])
                if any(not (0 <= l <= 255) for l in lens):
                    col.fail("hq-length-field", data, "%s: length fields %r do not fit 8 bits" % (loc, lens))
                budget = sum(lens)
                budgets.append(budget)
                total += 4 + prefix + scaler * budget
                if q < minq:
                    col.fail("q-below-minimum", data, "%s qindex %d < minimum %d" % (loc, q, minq))
                comps = [Z.quantised(c, q) for c in (sc.Y, sc.C1, sc.C2)]
                for name, cq, l in zip(("y", "c1", "c2"), comps, lens):
                    if list(s[name + "_transform"]) != cq:
                        col.fail("coeffs-differ", data, "%s: coded %s coefficients differ from the harness' quantisation at qindex %d" % (loc, name, q))
                    if Z.block_bits(cq) > 8 * scaler * l:
                        col.fail("hq-does-not-fit", data, "%s: %s needs %d bits, length field gives %d" % (loc, name, Z.block_bits(cq), 8 * scaler * l))
                if q > minq:
                    facts["searched"] = True
                    if Z.hq_units(sc, q - 1, scaler) <= budget:
                        col.fail("q-not-smallest", data, "%s: qindex %d chosen but %d already fits %d units of %d bytes" % (loc, q, q - 1, budget, scaler))
            if budgets and max(budgets) - min(budgets) > 1:
                col.fail("hq-uneven-budgets", data, "picture %d: slice budgets %r differ by more than one unit" % (pi, sorted(set(budgets))))
            if abs(total - pb) > scaler:
                col.fail("hq-total-size", data, "picture %d: slices total %d bytes, picture_bytes %d, scaler %d" % (pi, total, pb, scaler))
            if region != 8 * total:
                col.fail("hq-region-size", data, "picture %d: measured slice region %d bits != described %d bytes" % (pi, region, total))
    try:
        v = S.validate(blob)
    except Exception as e:
        col.fail(col.crash_bucket(e, "validate"), data, "validator raised %s: %s" % (type(e).__name__, e))
        return facts
    if v.error is not None:
        col.fail("nonconformant:" + type(v.error).__name__, data, "encoder output rejected: %s" % type(v.error).__name__)
    return facts


def body(case, col):
    cf, specs, mq, mss = case
    facts = check_case(cf, specs, mq, mss, col)
    lab = G.labels(cf) + [facts["outcome"].split(":")[0]]
    lab.append("minq_list" if isinstance(mq, list) else ("minq>0" if mq else "minq=0"))
    if mss > 1:
        lab.append("min_scaler>1")
    if facts["searched"]:
        lab.append("qindex_search_happened")
    col.case(key=(G.config_key(cf), tuple(specs), repr(mq), mss), nontrivial=facts["searched"], labels=lab,
             sample=lambda: case_json(cf, specs, mq, mss))


def shards(tier):
    return list(range(16 if tier == "quick" else 64))


def run_shard(spec, ctx):
    run_given(cases(thorough=ctx.thorough), body, ctx, ctx.pick(110, 450))


def replay(data, col):
    cf = G.config_from_json(data["config"])
    body((cf, [tuple(s) for s in data["specs"]], data["minimum_qindex"], data["minimum_slice_size_scaler"]), col)
