"""C01 — validator accepts exactly the structurally conformant data-unit histories."""

import contextlib
import copy
import re

from hypothesis import strategies as st

from vpbt.core import run_given
from vpbt.gen import streams as S
from vpbt.oracles import stream_model as MODEL

ID = "C01"
LEVEL = "exploration"
RULE = (
    "Abstract histories: a flat list of up to ~14 data units (sequence headers in two variants, pictures, first fragments, "
    "continuation fragments carrying (count,start) in {(1,0),(1,1),(1,2),(1,3),(2,0),(2,2),(3,0),(4,0)} of a 2x2-slice picture, "
    "padding/auxiliary units with 0-20 payload bytes, end-of-sequence) in 1-3 sequences, each with a context: profile LD/HQ, "
    "frames/fields, major_version 1-4, level in {0,1..7,64,65,66}; per unit: next_parse_offset correct/zero/wrong/1-12, "
    "previous_parse_offset correct/zero/wrong, explicit picture numbers (consecutive, skip, repeat, wrap at 2^32, odd first field), "
    "pictures of the other profile. Generation = valid skeleton honouring the level pattern + 0-2 injected defects (70 %), or "
    "random orderings (30 %). Units are individually valid byte blobs cut from encoder output for 8x4 formats; histories are "
    "assembled by concatenation and patching only the offset and picture-number bytes. Oracle: from-scratch structure model "
    "(oracles/stream_model.py, level patterns hand-translated to Python re) must give the same accept/reject verdict as "
    "parse_stream, and every rejection must be a ConformanceError. Non-trivial = accepted history with >= 5 units containing a "
    "fragmented picture or a repeated sequence header, or a rejected history with exactly one injected defect; distinct by "
    "history hash."
)
ASSUMPTIONS = [
    "A permissive level-constraint column (level in {1..7,64,65,66}, every other key 'any') is appended in-process so that tiny pictures can carry real level numbers; the level ordering patterns are the real ones.",
    "Wrong next_parse_offset is never injected into padding/auxiliary units (the field defines their length).",
]

LEVELS = [0, 1, 2, 3, 4, 5, 6, 7, 64, 65, 66]
FRAG_SHAPES = [(1, 0), (1, 1), (1, 2), (1, 3), (2, 0), (2, 2), (3, 0), (4, 0)]


# ---------------------------------------------------------------------------
# unit blobs


@contextlib.contextmanager
def permissive_levels():
    from vc2_conformance.constraint_table import AnyValue, ValueSet
    from vc2_conformance.level_constraints import LEVEL_CONSTRAINTS

    keys = set()
    for col in LEVEL_CONSTRAINTS:
        keys.update(col.keys())
    col = {k: AnyValue() for k in keys}
    col["level"] = ValueSet(*[l for l in LEVELS if l != 0])
    LEVEL_CONSTRAINTS.append(col)
    try:
        yield
    finally:
        LEVEL_CONSTRAINTS.remove(col)


def _cut(data):
    """Split a valid serialised sequence into data-unit blobs using next_parse_offset."""
    out = []
    pos = 0
    while pos < len(data):
        assert data[pos:pos + 4] == b"BBCD", "harness: lost sync while cutting blobs"
        nxt = int.from_bytes(data[pos + 5:pos + 9], "big")
        end = pos + nxt if nxt else len(data)
        out.append(data[pos:end])
        pos = end
    return out


class Blobs(object):
    """Lazily built, cached unit blobs for the current tree."""

    def __init__(self):
        self.sh = {}
        self.pics = {}

    def _cf(self, profile, pcm, variant=0, frag=0):
        from vc2_data_tables import PictureCodingModes, Profiles
        from vpbt.gen.corpus import base_cf

        kw = dict(
            profile=Profiles.low_delay if profile == "LD" else Profiles.high_quality,
            picture_coding_mode=PictureCodingModes.pictures_are_fields if pcm == "fields" else PictureCodingModes.pictures_are_frames,
            picture_bytes=24,
            fragment_slice_count=frag,
        )
        if frag:
            kw.update(slices_x=2, slices_y=2, picture_bytes=32)
        vp = {}
        if variant:
            vp["frame_rate_numer"] = 2
        return base_cf(vp=vp, **kw)

    def seq_header(self, profile, pcm, version, level, variant):
        key = (profile, pcm, version, level, variant)
        if key not in self.sh:
            from vc2_conformance import bitstream as B
            from vc2_conformance.encoder.sequence import make_end_of_sequence_data_unit
            from vc2_conformance.encoder.sequence_header import make_sequence_header_data_unit
            from vc2_data_tables import Levels

            du = make_sequence_header_data_unit(self._cf(profile, pcm, variant))
            pp = du["sequence_header"]["parse_parameters"]
            pp["major_version"] = version
            pp["level"] = Levels(level)
            data = S.serialise_stream(B.Stream(sequences=[B.Sequence(data_units=[du, make_end_of_sequence_data_unit()])]))
            self.sh[key] = _cut(data)[0]
        return self.sh[key]

    def pictures(self, profile, pcm, v3):
        """{'PIC': blob, 'F0': blob, ('FN',count,start): blob}"""
        key = (profile, pcm, v3)
        if key not in self.pics:
            from vc2_conformance import bitstream as B
            from vc2_conformance.encoder import make_sequence
            from vpbt.gen import pictures as P

            out = {}
            for frag in (0, 1, 2, 3, 4):
                cf = self._cf(profile, pcm, 0, frag)
                pics = P.build_pictures(cf, [("noise", "ramp", "checker", 77)], [0])
                seq = make_sequence(cf, pics)
                for du in seq["data_units"]:
                    if "sequence_header" in du:
                        du["sequence_header"]["parse_parameters"]["major_version"] = 3 if v3 else 2
                    for holder in ("picture_parse", "fragment_parse"):
                        tp = None
                        if holder == "picture_parse" and holder in du:
                            tp = du[holder]["wavelet_transform"]["transform_parameters"]
                        elif holder in du and "transform_parameters" in du[holder]:
                            tp = du[holder]["transform_parameters"]
                        if tp is not None and not v3:
                            tp.pop("extended_transform_parameters", None)
                data = S.serialise_stream(B.Stream(sequences=[seq]))
                blobs = _cut(data)[1:-1]  # drop SH and EOS
                if frag == 0:
                    assert len(blobs) == 1
                    out["PIC"] = blobs[0]
                else:
                    out["F0"] = blobs[0]
                    start = 0
                    for b in blobs[1:]:
                        count = int.from_bytes(b[19:21], "big")
                        out[("FN", count, start)] = b
                        start += count
            self.pics[key] = out
        return self.pics[key]


_BLOBS = Blobs()


def _payload(n, salt):
    return bytes((7 * i + salt) & 0xFF for i in range(n))


def unit_blob(u, ctx):
    """Bytes of one unit under the context of its sequence (profile/pcm/version of the first header)."""
    kind = u["kind"]
    if kind == "SH":
        return _BLOBS.seq_header(u["profile"], u["pcm"], u["version"], u["level"], u["variant"])
    if kind == "EOS":
        return b"BBCD\x10" + bytes(8)
    if kind == "PAD":
        return b"BBCD\x30" + bytes(8) + _payload(u["len"], 3)
    if kind == "AUX":
        return b"BBCD\x20" + bytes(8) + _payload(u["len"], 5)
    profile, pcm, version = u["profile"], ctx["pcm"], ctx["version"]
    pics = _BLOBS.pictures(profile, pcm, version >= 3)
    if kind == "PIC":
        return pics["PIC"]
    if kind == "F0":
        return pics["F0"]
    return pics[("FN", u["count"], u["start"])]


def assemble(units):
    """Abstract history -> bytes (offset and picture-number bytes patched)."""
    default_ctx = {"pcm": "frames", "version": 2}
    blobs = []
    ctx = None
    first_in_seq = True
    for u in units:
        if first_in_seq:
            ctx = {"pcm": u["pcm"], "version": u["version"]} if u["kind"] == "SH" else dict(default_ctx)
        b = bytearray(unit_blob(u, ctx))
        if u["kind"] in ("PIC", "F0", "FN"):
            b[13:17] = (u["picnum"] % (1 << 32)).to_bytes(4, "big")
        if u["kind"] == "FN" and u.get("xy") is not None:
            # explicit (possibly aliased / out-of-range) fragment_x_offset, fragment_y_offset
            b[21:23] = int(u["xy"][0]).to_bytes(2, "big")
            b[23:25] = int(u["xy"][1]).to_bytes(2, "big")
        blobs.append(b)
        first_in_seq = u["kind"] == "EOS"
    out = bytearray()
    prev_len = None
    first_in_seq = True
    for i, (u, b) in enumerate(zip(units, blobs)):
        true_next = len(b)
        if u["kind"] == "EOS":
            nxt = 0 if u["next"] in ("ok", "zero") else (13 if u["next"] == "wrong" else u.get("next_value", 5))
        elif u["kind"] in ("PAD", "AUX"):
            nxt = 0 if u["next"] == "zero" else true_next
        else:
            if u["next"] == "ok":
                nxt = true_next
            elif u["next"] == "zero":
                nxt = 0
            elif u["next"] == "invalid":
                nxt = u.get("next_value", 5)  # 1..12
            else:
                nxt = true_next + u.get("next_delta", 1)
        true_prev = 0 if first_in_seq else prev_len
        prv = true_prev if u["prev"] == "ok" else 0 if u["prev"] == "zero" else true_prev + u.get("prev_delta", 1)
        b[5:9] = nxt.to_bytes(4, "big")
        b[9:13] = prv.to_bytes(4, "big")
        out += b
        prev_len = len(b)
        first_in_seq = u["kind"] == "EOS"
    return bytes(out)


# ---------------------------------------------------------------------------
# generation


def U(kind, **kw):
    d = {"kind": kind, "next": "ok", "prev": "ok"}
    d.update(kw)
    return d


@st.composite
def contexts(draw):
    profile = draw(st.sampled_from(["HQ", "LD"]))
    pcm = draw(st.sampled_from(["frames", "frames", "fields"]))
    level = draw(st.sampled_from([0, 0, 0, 0, 0, 0, 1, 2, 3, 7, 64, 65, 66]))
    return dict(profile=profile, pcm=pcm, level=level)


@st.composite
def valid_sequence(draw, ctx, force_frag=False):
    """A sequence built to be conformant for the context (version minimal; SHMARK = repeat of the first header)."""
    profile, pcm, level = ctx["profile"], ctx["pcm"], ctx["level"]
    start = draw(st.sampled_from([0, 0, 2, 1000, (1 << 32) - 2, (1 << 32) - 4, draw(st.integers(0, (1 << 31) - 1)) * 2]))
    npic = draw(st.integers(1 if force_frag else 0, 4))
    if pcm == "fields" and npic % 2:
        npic += 1
    strict = level in (64, 65, 66)
    use_frag = (not strict) and (force_frag or draw(st.booleans()))
    # pictures mixed with fragments: legal at level 0 only (levels 1-7 forbid it: the model rejects those)
    mixed = (not strict) and draw(st.integers(0, 3)) == 0
    body = []
    num = start
    any_frag = False
    for p in range(npic):
        frag = draw(st.booleans()) if mixed else use_frag
        if strict and p > 0:
            body.append({"kind": "SHMARK"})
        if frag:
            any_frag = True
            body.append(U("F0", profile=profile, picnum=num))
            shape = draw(st.sampled_from([[(4, 0)], [(2, 0), (2, 2)], [(3, 0), (1, 3)], [(1, 0), (1, 1), (1, 2), (1, 3)],
                                          [(2, 0), (1, 2), (1, 3)], [(1, 0), (1, 1), (2, 2)]]))
            for (c, s0) in shape:
                if draw(st.integers(0, 5)) == 0:
                    body.append(draw(filler()))
                body.append(U("FN", profile=profile, picnum=num, count=c, start=s0))
        else:
            body.append(U("PIC", profile=profile, picnum=num))
        num = (num + 1) % (1 << 32)
        if not strict and draw(st.integers(0, 3)) == 0:
            body.append(draw(filler()))
    version = max(2 if profile == "HQ" else 1, 3 if any_frag else 1)
    if npic == 0 and draw(st.booleans()):
        version = 3
    units = [U("SH", profile=profile, pcm=pcm, version=version, level=level, variant=0)] + body
    # zero next offsets are legal on pictures/fragments
    for u in units:
        if u["kind"] in ("PIC", "F0", "FN") and draw(st.integers(0, 4)) == 0:
            u["next"] = "zero"
    units.append(U("EOS"))
    return units


@st.composite
def filler(draw):
    k = draw(st.sampled_from(["PAD", "AUX", "SHMARK"]))
    if k == "SHMARK":
        return {"kind": "SHMARK"}
    return U(k, len=draw(st.integers(0, 20)))


def resolve_markers(units):
    """Replace SHMARK fillers by a copy of the sequence's first header."""
    out = []
    first = None
    for u in units:
        if u["kind"] == "SH" and first is None:
            first = u
        if u["kind"] == "SHMARK":
            if first is None:
                continue
            u = copy.deepcopy(first)
            u["next"], u["prev"] = "ok", "ok"
        out.append(u)
        if u["kind"] == "EOS":
            first = None
    return out


@st.composite
def random_unit(draw, ctx):
    profile = ctx["profile"]
    k = draw(st.sampled_from(["SH", "PIC", "F0", "FN", "PAD", "AUX", "EOS", "PIC", "FN"]))
    if k == "SH":
        return U("SH", profile=profile, pcm=ctx["pcm"], version=draw(st.sampled_from([1, 2, 3, 3, 4])), level=ctx["level"],
                 variant=draw(st.sampled_from([0, 0, 0, 1])))
    if k in ("PAD", "AUX"):
        return U(k, len=draw(st.integers(0, 20)))
    if k == "EOS":
        return U("EOS")
    p = profile if draw(st.integers(0, 7)) else ("LD" if profile == "HQ" else "HQ")
    num = draw(st.sampled_from([0, 1, 2, 3, 4, 5, (1 << 32) - 1, (1 << 32) - 2]))
    if k == "FN":
        c, s0 = draw(st.sampled_from(FRAG_SHAPES))
        return U("FN", profile=p, picnum=num, count=c, start=s0)
    return U(k, profile=p, picnum=num)


@st.composite
def defect(draw, units, ctx, kinds=None):
    """Inject one defect (mutates and returns units, name)."""
    kind = draw(st.sampled_from(kinds or ["swap", "delete", "dup", "insert", "next", "prev", "picnum", "version", "level", "variant",
                                 "alien", "fragshape", "drop_eos", "next_zero_nonpic", "interleave_pic", "restart_frag",
                                 "interleave_pic", "restart_frag", "drop_last_picture", "frag_xy", "frag_xy", "version_plus_one",
                                 "version_plus_one", "drop_first_fragment", "drop_first_fragment", "truncate_fragments", "picnum", "picnum",
                                          "drop_last_picture", "eos_next"]))
    n = len(units)
    i = draw(st.integers(0, n - 1))
    j = draw(st.integers(0, n - 1))
    u = units[i]
    if kind == "swap":
        units[i], units[j] = units[j], units[i]
    elif kind == "delete":
        del units[i]
    elif kind == "dup":
        units.insert(j, copy.deepcopy(units[i]))
    elif kind == "insert":
        units.insert(i, draw(random_unit(ctx)))
    elif kind == "next":
        if u["kind"] in ("PAD", "AUX"):
            u["next"] = "zero"
            u["len"] = 0
        else:
            u["next"] = draw(st.sampled_from(["wrong", "invalid", "zero"]))
            u["next_delta"] = draw(st.sampled_from([1, 2, 8, 13, 100]))
            u["next_value"] = draw(st.integers(1, 12))
    elif kind == "next_zero_nonpic":
        cands = [x for x in units if x["kind"] in ("SH", "PAD", "AUX")]
        if cands:
            x = cands[draw(st.integers(0, len(cands) - 1))]
            x["next"] = "zero"
            if x["kind"] in ("PAD", "AUX"):
                x["len"] = 0
    elif kind == "prev":
        u["prev"] = draw(st.sampled_from(["wrong", "wrong", "zero"]))
        u["prev_delta"] = draw(st.sampled_from([1, 2, 13, 1000]))
    elif kind == "picnum":
        cands = [x for x in units if x["kind"] in ("PIC", "F0", "FN")]
        if cands:
            x = cands[draw(st.integers(0, len(cands) - 1))]
            x["picnum"] = (x["picnum"] + draw(st.sampled_from([1, -1, 2, 1 << 16, 1 << 31]))) % (1 << 32)
    elif kind in ("version", "level", "variant"):
        cands = [x for x in units if x["kind"] == "SH"]
        if cands:
            which = draw(st.sampled_from(["all", "one"]))
            targets = cands if which == "all" else [cands[draw(st.integers(0, len(cands) - 1))]]
            if kind == "version":
                nv = draw(st.sampled_from([1, 2, 3, 4]))
                for x in targets:
                    x["version"] = nv
            elif kind == "level":
                nl = draw(st.sampled_from(LEVELS))
                for x in targets:
                    x["level"] = nl
            else:
                for x in targets:
                    x["variant"] = 1 - x["variant"]
    elif kind == "version_plus_one":
        # every header of the sequence declares one version more than it had (too high unless the sequence is empty)
        for x in units:
            if x["kind"] == "SH":
                x["version"] = min(4, x["version"] + 1)
    elif kind == "alien":
        cands = [x for x in units if x["kind"] in ("PIC", "F0", "FN")]
        if cands:
            x = cands[draw(st.integers(0, len(cands) - 1))]
            x["profile"] = "LD" if x["profile"] == "HQ" else "HQ"
    elif kind == "fragshape":
        cands = [x for x in units if x["kind"] == "FN"]
        if cands:
            x = cands[draw(st.integers(0, len(cands) - 1))]
            x["count"], x["start"] = draw(st.sampled_from(FRAG_SHAPES))
    elif kind in ("interleave_pic", "restart_frag"):
        cands = [k for k, x in enumerate(units) if x["kind"] == "FN"]
        if cands:
            k = cands[draw(st.integers(0, len(cands) - 1))]
            prof = units[k]["profile"]
            units.insert(k, U("PIC" if kind == "interleave_pic" else "F0", profile=prof, picnum=0))
    elif kind == "frag_xy":
        # declare another (x, y) offset for the same slices: aliases of the same raster index (x + 2k, y - k),
        # transposed or arbitrary values
        cands = [x for x in units if x["kind"] == "FN"]
        if cands:
            x = cands[draw(st.integers(0, len(cands) - 1))]
            s0 = x["start"]
            x["xy"] = list(draw(st.sampled_from([(s0, 0), (s0 % 2 + 2, s0 // 2 - 1) if s0 >= 2 else (s0 + 2, 0), (s0 // 2, s0 % 2),
                                                 (s0 % 2, s0 // 2), (0, s0), (s0 % 2 + 2, s0 // 2), (65535, 0), (0, 0), (1, 1)])))
            if x["xy"][0] < 0 or x["xy"][1] < 0:
                x["xy"] = [s0, 0]
    elif kind == "drop_first_fragment":
        # remove the zero-slice first fragment of a fragmented picture, keeping its slice-carrying fragments
        # (after a whole picture they then follow a picture number that is already "known")
        cands = [k for k, x in enumerate(units) if x["kind"] == "F0"]
        if cands:
            del units[cands[draw(st.integers(0, len(cands) - 1))]]
    elif kind == "truncate_fragments":
        # the last picture of the sequence is fragmented and loses its last fragment(s): the sequence ends (or the
        # stream stops) while a fragmented picture is incomplete, everything before it being in order
        starts = [k for k, x in enumerate(units) if x["kind"] in ("PIC", "F0")]
        if starts and units[starts[-1]]["kind"] == "F0":
            conts = [k for k in range(starts[-1] + 1, len(units)) if units[k]["kind"] == "FN"]
            if conts:
                for k in reversed(conts[len(conts) - draw(st.integers(1, len(conts))):]):
                    del units[k]
    elif kind == "drop_last_picture":
        # remove the last whole picture (numbering of the others stays consistent): an odd number of fields remains
        starts = [k for k, x in enumerate(units) if x["kind"] in ("PIC", "F0")]
        if starts:
            k = starts[-1]
            del units[k]
            while k < len(units) and units[k]["kind"] == "FN":
                del units[k]
    elif kind == "eos_next":
        # end of sequence with a non-zero next_parse_offset (13 = "correct" distance to whatever follows, or junk)
        for x in units:
            if x["kind"] == "EOS":
                x["next"] = draw(st.sampled_from(["wrong", "invalid"]))
                x["next_delta"] = draw(st.sampled_from([1, 13, 100]))
                x["next_value"] = draw(st.integers(1, 12))
    elif kind == "drop_eos":
        if units and units[-1]["kind"] == "EOS":
            units.pop()
    return units, kind


def renumber(units, start=0):
    """Give pictures consistent numbers (consecutive per sequence; continuation fragments repeat)."""
    num = start
    last = start
    for u in units:
        if u["kind"] in ("PIC", "F0"):
            u["picnum"] = num % (1 << 32)
            last = u["picnum"]
            num += 1
        elif u["kind"] == "FN":
            u["picnum"] = last
        elif u["kind"] == "EOS":
            pass
    return units


FRAG_DEFECTS = ["frag_xy", "frag_xy", "fragshape", "fragshape", "interleave_pic", "restart_frag", "drop_first_fragment",
                "truncate_fragments", "truncate_fragments", "delete", "swap", "dup", "picnum", "insert", "alien"]


@st.composite
def histories(draw):
    mode = draw(st.sampled_from(["skeleton"] * 5 + ["fragfocus"] * 3 + ["random"] * 2))
    nseq = draw(st.sampled_from([1, 1, 1, 2, 2, 3]))
    units = []
    defects = []
    for _ in range(nseq):
        ctx = draw(contexts())
        if mode == "fragfocus":
            # fragmented pictures under a level without an ordering pattern, one (sometimes two) defects from the
            # fragment rules: the cheap rules (header first, level pattern) would otherwise decide most verdicts
            ctx["level"] = 0
        if mode in ("skeleton", "fragfocus"):
            seq = resolve_markers(draw(valid_sequence(ctx, force_frag=mode == "fragfocus")))
            nd = draw(st.sampled_from([0, 0, 0, 1, 1, 2] if mode == "skeleton" else [0, 1, 1, 1, 1, 2]))
            structural = False
            for _ in range(nd):
                if not seq:
                    break
                seq, name = draw(defect(seq, ctx, FRAG_DEFECTS if mode == "fragfocus" else None))
                defects.append(name)
                structural = structural or name in ("swap", "delete", "dup", "insert", "interleave_pic", "restart_frag", "drop_first_fragment")
            seq = resolve_markers(seq)
            if structural and draw(st.integers(0, 2)) != 0:
                # keep the numbering consistent so that the verdict hinges on the structural rule
                seq = renumber(seq, draw(st.sampled_from([0, 2, (1 << 32) - 2])))
            if draw(st.sampled_from([False] * 9 + [True])):
                # whole sequence numbered from an odd start: only wrong for field coding (first field must be even)
                seq = renumber(seq, draw(st.sampled_from([1, 7, (1 << 32) - 1, (1 << 32) - 3])))
                defects.append("odd_start")
        else:
            seq = [draw(random_unit(ctx)) for _ in range(draw(st.integers(1, 8)))]
            if draw(st.integers(0, 3)) != 0:
                seq = renumber(seq, draw(st.sampled_from([0, 2, 4, (1 << 32) - 2, 1, (1 << 32) - 1])))
            if draw(st.integers(0, 5)) != 0 and seq[0]["kind"] != "SH":
                seq.insert(0, U("SH", profile=ctx["profile"], pcm=ctx["pcm"], version=draw(st.sampled_from([1, 2, 3, 3, 3])),
                                level=ctx["level"], variant=0))
            if draw(st.booleans()):
                seq.append(U("EOS"))
            for u in seq:
                if draw(st.integers(0, 9)) == 0 and u["kind"] not in ("PAD", "AUX"):
                    u["next"] = draw(st.sampled_from(["zero", "wrong", "invalid"]))
                    u["next_value"] = draw(st.integers(1, 12))
                if draw(st.integers(0, 14)) == 0:
                    u["prev"] = draw(st.sampled_from(["wrong", "zero"]))
            defects.append("random")
        units.extend(seq)
    return units, mode, defects


# ---------------------------------------------------------------------------
# property


LAST = [None, None]  # model's reason and validator's error class of the last history judged (for the coverage labels)


def judge_history(units, col, mode="replay", defects=()):
    rec = {"units": units}
    ok, why = MODEL.judge(units)
    LAST[0], LAST[1] = why, None
    try:
        data = assemble(units)
    except KeyError as e:
        raise  # harness bug
    try:
        v = S.validate(data)
    except Exception as e:
        col.fail(col.crash_bucket(e), rec, "validator raised %s: %s on an assembled history (model says %s: %s)" % (
            type(e).__name__, str(e)[:200], "accept" if ok else "reject", why))
        return ok, None
    accepted = v.error is None
    LAST[1] = type(v.error).__name__ if v.error is not None else None
    if accepted != ok:
        if ok:
            col.fail("model-accepts/validator-rejects:%s" % type(v.error).__name__, rec,
                     "model accepts but validator raised %s: %s" % (type(v.error).__name__, v.error.explain().strip().splitlines()[0][:200]))
        else:
            col.fail("model-rejects/validator-accepts", rec, "validator accepted a history the model rejects: %s" % why)
    return ok, accepted


def body(case, col):
    units, mode, defects = case
    if not units:
        return
    ok, accepted = judge_history(units, col, mode, defects)
    kinds = [u["kind"] for u in units]
    has_frag = "F0" in kinds
    rep_sh = kinds.count("SH") > kinds.count("EOS") and kinds.count("SH") >= 2
    nt = (ok and len(units) >= 5 and (has_frag or rep_sh)) or ((not ok) and mode in ("skeleton", "fragfocus") and len(defects) == 1)
    labels = ["mode:" + mode, "model_accept" if ok else "model_reject", "defects:%d" % len(defects) if mode in ("skeleton", "fragfocus") else "defects:random"]
    labels += ["defect:" + d for d in set(defects) if d != "random"]
    if has_frag:
        labels.append("has_fragments")
    lv = set(u["level"] for u in units if u["kind"] == "SH")
    labels += ["level:%d" % l for l in lv]
    if not ok and LAST[0]:
        # which rule the model's verdict hinged on (first violated rule), and which error class the validator chose
        labels.append("rule:" + re.sub(r"\d+", "N", LAST[0].split(": ", 1)[-1])[:60])
    if LAST[1]:
        labels.append("err:" + LAST[1])
    col.case(key=repr(units), nontrivial=nt, labels=labels,
             sample=lambda: {"history": [compact(u) for u in units], "model": "accept" if ok else "reject", "defects": list(defects)})


def v_err_none(x):
    return x


def compact(u):
    s = u["kind"]
    if u["kind"] == "SH":
        s += "(%s,%s,v%d,L%d,var%d)" % (u["profile"], u["pcm"], u["version"], u["level"], u["variant"])
    elif u["kind"] in ("PIC", "F0"):
        s += "(%s,#%d)" % (u["profile"], u["picnum"])
    elif u["kind"] == "FN":
        s += "(%s,#%d,%d@%d%s)" % (u["profile"], u["picnum"], u["count"], u["start"], (" xy=%r" % (u["xy"],)) if u.get("xy") is not None else "")
    elif u["kind"] in ("PAD", "AUX"):
        s += "(%d)" % u["len"]
    if u["next"] != "ok":
        s += " next=" + u["next"]
    if u["prev"] != "ok":
        s += " prev=" + u["prev"]
    return s


def shards(tier):
    return list(range(16 if tier == "quick" else 64))


def run_shard(spec, ctx):
    with permissive_levels():
        run_given(histories(), body, ctx, ctx.pick(500, 12000))


def replay(data, col):
    with permissive_levels():
        units = data["units"]
        ok, accepted = judge_history(units, col)
        col.case(key=repr(units), nontrivial=True, labels=("model_accept" if ok else "model_reject",))
