"""C17 — constraint-table queries follow set semantics.

Three parts, each judged by a model written here (Python sets over a small
universe, lists of dicts of sets, a row-by-row CSV model):

(a) ``ValueSet`` / ``AnyValue`` operation histories (Hypothesis rule based state
    machine; every step is an entry of a plain JSON op log interpreted by
    ``VSRun``, which is also what ``replay`` uses);
(b) random constraint tables without catch-all (empty dict) columns:
    ``allowed_values_for`` <-> ``is_allowed_combination`` <-> brute-force model,
    and the validator's own ``assert_level_constraint`` run one value at a time;
(c) CSV text rendered from a row model, read back by ``read_constraints_from_csv``.
"""

import os
import tempfile

from hypothesis import strategies as st

from vpbt.core import Collector, run_given

ID = "C17"
LEVEL = "exploration"
RULE = (
    "(a) Hypothesis RuleBasedStateMachine over up to 8 ValueSet/AnyValue registers: rules new(values and "
    "lo<=hi ranges), AnyValue(), add_value, add_range, a+b, a+=b, is_disjoint; values are ints -3..40 and "
    "bools (numeric machines) or strings/ints without ranges (symbolic machines). After every step every "
    "register is compared with a Python-set model: membership of each of -5..43, True, False (and strings), "
    "iter_values (exactly the model, each value once), the listed values/ranges, is_disjoint in both "
    "directions incl. the AnyValue rule. One machine run = one evaluation; non-trivial = at least one added "
    "range overlapped an earlier range of the same set (a merge; 'chain' = it bridged >= 2 components); "
    "distinct by op log. (b) @given tables: 1-5 columns x 1-5 keys, cells = values/ranges over 0..7, bools, "
    "empty, AnyValue, columns may lack keys but are never empty dicts; a sequence of distinct (key, value) "
    "pairs biased towards one column. For every prefix and every candidate 0..8/True/False: v in "
    "allowed_values_for == is_allowed_combination(prefix+{k:v}) == brute-force model; the real "
    "assert_level_constraint (table patched in) must reject exactly at the first prefix the model "
    "disallows. Non-trivial = table has an AnyValue cell and some non-empty prefix matches >= 2 columns; "
    "distinct by (table, sequence). (c) @given CSV text rendered from a row model (ints >= 0, lo-hi, "
    "TRUE/FALSE, quoted comma lists, any, empty, ditto as \" or typographic quotes, comment/blank/short "
    "rows, LF/CRLF) read from a real file; per column and key: AnyValue exactly where 'any' or a ditto of "
    "it, else membership over 0..41 and every endpoint +-1. Non-trivial = a ditto cell copying a non-empty "
    "cell; distinct by CSV text."
)
ASSUMPTIONS = [
    "Ranges are given with lower <= upper; inverted ranges are outside the documented format (DESIGN 7.6).",
    "CSV numbers are non-negative integers; negative numbers cannot be told from ranges in the 'lo-hi' syntax.",
    "Strings and ranges are not mixed in one ValueSet: under Python 3 'lo <= \"x\"' raises TypeError, and no "
    "documented use mixes them (string sets in the docs hold only values).",
    "CSV cells are exactly the documented forms ('any', 'TRUE'/'FALSE', integers, 'lo-hi', comma lists with an "
    "optional space after the comma, truly empty cells); whitespace-only cells, duplicate keys, keys starting "
    "with '#' and a ditto in the first value column (nothing to its left to repeat) are not generated.",
    "Part (b) only uses tables without catch-all (empty dict) columns, as the property states, and sequences of "
    "distinct keys (the validator asserts each level-constrained key once per sequence header).",
    "iter_values is required to yield each member once (a value *set*); the implementation maintains this by "
    "dropping values covered by a range and merging overlapping ranges.",
]


def EXHAUSTIVE(tier):
    return False


ANY = "any"

# ---------------------------------------------------------------------------
# (a) value sets

NUM_UNIVERSE = list(range(-5, 44)) + [True, False]
SYM_VALUES = ["a", "b", "c", "tomato", "red"]
SYM_UNIVERSE = NUM_UNIVERSE + SYM_VALUES + ["zz", ""]
MAX_REGS = 8


def _components(raw):
    """Disjoint components (as closed integer intervals) of a list of (lo, hi)."""
    out = []
    for lo, hi in sorted(raw):
        if out and lo <= out[-1][1]:
            out[-1][1] = max(out[-1][1], hi)
        else:
            out.append([lo, hi])
    return out


class _Reg(object):
    def __init__(self, impl, is_any=False):
        self.impl = impl
        self.any = is_any
        self.s = set()
        self.raw = []  # ranges as added (model side, for merge bookkeeping only)


class _HarnessBug(Exception):
    pass


def _reraise_if_harness(col, exc):
    """Bucket for an unexpected exception; exceptions without a repo frame are harness bugs."""
    bucket = col.crash_bucket(exc)
    if bucket.endswith("@?"):
        raise exc
    return bucket


class VSRun(object):
    """Interprets a value-set op log against the implementation and the model."""

    def __init__(self, col, mode, CT):
        self.col = col
        self.mode = mode
        self.CT = CT
        self.ops = []
        self.regs = []
        self.dead = False
        self.merges = 0
        self.chains = 0
        self.any_operand = 0
        self.bools = 0
        self.disjoint = [0, 0]
        self.universe = SYM_UNIVERSE if mode == "sym" else NUM_UNIVERSE

    # -- bookkeeping
    def fail(self, bucket, message):
        self.dead = True
        self.col.fail(bucket, {"kind": "vs", "mode": self.mode, "ops": list(self.ops)}, message)

    def reg(self, i):
        return self.regs[i % len(self.regs)]

    def push(self, reg):
        if len(self.regs) >= MAX_REGS:
            self.regs.pop(0)
        self.regs.append(reg)

    def _note_range(self, reg, lo, hi):
        hit = [c for c in _components(reg.raw) if c[0] <= hi and lo <= c[1]]
        if hit:
            self.merges += 1
        if len(hit) >= 2:
            self.chains += 1
        reg.raw.append((lo, hi))

    def _model_add(self, reg, item):
        if isinstance(item, (list, tuple)):
            lo, hi = item
            if not reg.any:
                self._note_range(reg, lo, hi)
                reg.s.update(range(lo, hi + 1))
        else:
            if isinstance(item, bool):
                self.bools += 1
            if not reg.any:
                reg.s.add(item)

    # -- execution
    def apply(self, op):
        if self.dead:
            return
        self.ops.append(op)
        try:
            self._apply(op)
            if not self.dead:
                self._check_all()
        except _HarnessBug:
            raise
        except Exception as exc:  # the code under test has no documented exception in this domain
            bucket = _reraise_if_harness(self.col, exc)
            self.fail(bucket, "unexpected %s: %s (op %r)" % (type(exc).__name__, exc, op))

    def _apply(self, op):
        CT = self.CT
        name = op["op"]
        if name == "new":
            items = [tuple(x) if isinstance(x, list) else x for x in op["items"]]
            reg = _Reg(CT.ValueSet(*items))
            for it in items:
                self._model_add(reg, it)
            self.push(reg)
            return
        if name == "any":
            self.push(_Reg(CT.AnyValue(), True))
            return
        if not self.regs:
            return
        if name == "add_value":
            reg = self.reg(op["r"])
            reg.impl.add_value(op["v"])
            self._model_add(reg, op["v"])
        elif name == "add_range":
            reg = self.reg(op["r"])
            reg.impl.add_range(op["lo"], op["hi"])
            self._model_add(reg, (op["lo"], op["hi"]))
        elif name in ("union", "iadd"):
            a, b = self.reg(op["a"]), self.reg(op["b"])
            if name == "union":
                res = a.impl + b.impl
            else:
                res = a.impl
                res += b.impl
            out = _Reg(res, a.any or b.any)
            if a.any or b.any:
                self.any_operand += 1
            else:
                out.s = set(a.s) | set(b.s)
                ca, cb = _components(a.raw), _components(b.raw)
                for lo, hi in cb:
                    hit = [c for c in ca if c[0] <= hi and lo <= c[1]]
                    if hit:
                        self.merges += 1
                    if len(hit) >= 2:
                        self.chains += 1
                out.raw = list(a.raw) + list(b.raw)
            if name == "union":
                self.push(out)
            else:
                self.regs[op["a"] % len(self.regs)] = out
        elif name == "disjoint":
            a, b = self.reg(op["a"]), self.reg(op["b"])
            if a.any and b.any:
                exp = False
            elif a.any or b.any:
                self.any_operand += 1
                exp = not (b.s if a.any else a.s)
            else:
                exp = a.s.isdisjoint(b.s)
            self.disjoint[1 if exp else 0] += 1
            got_ab = a.impl.is_disjoint(b.impl)
            got_ba = b.impl.is_disjoint(a.impl)
            if bool(got_ab) != exp or bool(got_ba) != exp:
                self.fail("vs-disjoint", "is_disjoint(%r, %r) = %r / reversed %r, model says %r"
                          % (a.impl, b.impl, got_ab, got_ba, exp))
        else:
            raise _HarnessBug("unknown op %r" % (op,))

    def _check_all(self):
        for reg in self.regs:
            if self.dead:
                return
            self._check_reg(reg)

    def _check_reg(self, reg):
        CT = self.CT
        impl = reg.impl
        if reg.any:
            if not isinstance(impl, CT.AnyValue):
                self.fail("vs-anyvalue", "expected AnyValue, got %r" % (impl,))
                return
            for u in self.universe:
                if not (u in impl):
                    self.fail("vs-anyvalue", "%r not in AnyValue" % (u,))
                    return
            return
        if isinstance(impl, CT.AnyValue) or not isinstance(impl, CT.ValueSet):
            self.fail("vs-union-type", "expected a plain ValueSet, got %r" % (impl,))
            return
        for u in self.universe:
            got = u in impl
            if bool(got) != (u in reg.s):
                self.fail("vs-membership", "%r in %r is %r, model %s" % (u, impl, got, _show(reg.s)))
                return
        vals = list(impl.iter_values())
        if set(vals) != reg.s:
            self.fail("vs-iter-values", "iter_values of %r = %r, model %s" % (impl, vals, _show(reg.s)))
            return
        if len(vals) != len(set(vals)):
            self.fail("vs-iter-values-duplicate", "iter_values of %r yields a value twice: %r" % (impl, sorted(vals, key=repr)))
            return
        listed = set()
        for item in impl:
            if isinstance(item, tuple):
                listed.update(range(item[0], item[1] + 1))
            else:
                listed.add(item)
        if listed != reg.s:
            self.fail("vs-listed", "listed values/ranges of %r expand to %s, model %s" % (impl, _show(listed), _show(reg.s)))


def _show(s):
    return "{%s}" % ", ".join(repr(x) for x in sorted(s, key=lambda x: (str(type(x)), x)))


def replay_vs(data, col, CT):
    run = VSRun(col, data.get("mode", "num"), CT)
    for op in data["ops"]:
        run.apply(op)
    return run


def shrink_ops(data, bucket, rerun, key="ops", budget=300):
    """Greedy removal of ops while ``rerun(data)`` still reports ``bucket``."""
    ops = list(data[key])
    # drop everything after the failing step first (the interpreter is dead after it anyway)
    changed = True
    while changed and budget > 0:
        changed = False
        i = len(ops) - 1
        while i >= 0 and budget > 0:
            cand = ops[:i] + ops[i + 1:]
            budget -= 1
            d2 = dict(data)
            d2[key] = cand
            if bucket in rerun(d2):
                ops = cand
                changed = True
            i -= 1
    out = dict(data)
    out[key] = ops
    return out


def _shrunk_fail(col, before, rerun, key="ops"):
    """Replace newly recorded failures by a delta-debugged op log."""
    for bucket in [b for b in col.failures if b not in before]:
        f = col.failures[bucket]
        data = f["data"]
        if not isinstance(data, dict) or key not in data:
            continue
        small = shrink_ops(data, bucket, rerun, key)
        if len(small[key]) < len(data[key]):
            c2 = Collector()
            try:
                rerun(small, c2)
            except Exception:
                continue
            if bucket in c2.failures:
                g = c2.failures[bucket]
                g["shrunk"] = True
                col.failures[bucket] = g


def _shrink_new(col, before, keys, rerun):
    """Quick-tier structural delta debugging of table / CSV failures (thorough uses Hypothesis' shrinker)."""
    for bucket in [b for b in col.failures if b not in before]:
        orig = col.failures[bucket]["data"]
        data = orig
        for key in keys:
            data = shrink_ops(data, bucket, rerun, key, budget=120)
        if any(len(data[k]) < len(orig[k]) for k in keys):
            c2 = Collector()
            rerun(data, c2)
            if bucket in c2.failures:
                g = c2.failures[bucket]
                g["shrunk"] = True
                col.failures[bucket] = g


def make_vs_machine(col, mode, CT, samples=0):
    nsamples = [samples]
    from hypothesis.stateful import RuleBasedStateMachine, precondition, rule

    if mode == "sym":
        value = st.one_of(st.sampled_from(SYM_VALUES), st.integers(0, 5), st.booleans())
        item = value
    else:
        value = st.one_of(st.integers(-3, 40), st.integers(0, 12), st.booleans())
        rng = st.one_of(
            st.builds(lambda lo, w: [lo, min(40, lo + w)], st.integers(-3, 40), st.integers(0, 6)),
            st.builds(lambda lo, w: [lo, min(40, lo + w)], st.integers(-3, 40), st.integers(0, 43)),
        )
        item = st.one_of(value, rng, rng)
    idx = st.integers(0, MAX_REGS - 1)

    def rerun(data, c=None):
        c = c if c is not None else Collector()
        replay_vs(data, c, CT)
        return set(c.failures)

    # after a recorded failure the interpreter is dead: further rules are no-ops
    has_regs = precondition(lambda self: bool(self.run.regs))

    class VSMachine(RuleBasedStateMachine):
        def __init__(self):
            super(VSMachine, self).__init__()
            self.run = VSRun(col, mode, CT)
            self.before = set(col.failures)

        @rule(items=st.lists(item, max_size=6))
        def new(self, items):
            self.run.apply({"op": "new", "items": items})

        @rule()
        def any_value(self):
            self.run.apply({"op": "any"})

        @has_regs
        @rule(r=idx, v=value)
        def add_value(self, r, v):
            self.run.apply({"op": "add_value", "r": r, "v": v})

        if mode != "sym":

            @has_regs
            @rule(r=idx, lohi=rng)
            def add_range(self, r, lohi):
                self.run.apply({"op": "add_range", "r": r, "lo": lohi[0], "hi": lohi[1]})

        @has_regs
        @rule(a=idx, b=idx)
        def union(self, a, b):
            self.run.apply({"op": "union", "a": a, "b": b})

        @has_regs
        @rule(a=idx, b=idx)
        def iadd(self, a, b):
            self.run.apply({"op": "iadd", "a": a, "b": b})

        @has_regs
        @rule(a=idx, b=idx)
        def disjoint(self, a, b):
            self.run.apply({"op": "disjoint", "a": a, "b": b})

        def teardown(self):
            run = self.run
            labels = ["vs_machine", "vs_mode_" + mode]
            if run.merges:
                labels.append("vs_machine_with_range_merge")
            if run.chains:
                labels.append("vs_machine_with_chain_merge")
            if run.any_operand:
                labels.append("vs_machine_with_anyvalue_operand")
            if run.bools:
                labels.append("vs_machine_with_bool_member")
            if run.disjoint[0]:
                labels.append("vs_machine_with_overlapping_is_disjoint")
            if run.disjoint[1]:
                labels.append("vs_machine_with_disjoint_is_disjoint")
            col.count("vs_steps", len(run.ops))
            want = nsamples[0] > 0 and (run.merges > 0 or mode == "sym") and 4 <= len(run.ops) <= 14
            col.case(key=("vs", mode, repr(run.ops)), nontrivial=run.merges > 0, labels=labels)
            if want:
                nsamples[0] -= 1
                col.sample({"kind": "vs", "mode": mode, "ops": run.ops})
            if run.dead:
                _shrunk_fail(col, self.before, rerun)

    return VSMachine


# ---------------------------------------------------------------------------
# (b) constraint tables

TABLE_QUERY = list(range(0, 9)) + [True, False]


def build_cell(cell, CT):
    if cell == ANY:
        return CT.AnyValue()
    return CT.ValueSet(*[tuple(x) if isinstance(x, list) else x for x in cell])


def model_cell(cell):
    if cell == ANY:
        return ANY
    s = set()
    for x in cell:
        if isinstance(x, (list, tuple)):
            s.update(range(x[0], x[1] + 1))
        else:
            s.add(x)
    return s


def model_matching(mtable, values):
    return [
        i for i, col in enumerate(mtable)
        if all(k in col and (col[k] is ANY or v in col[k]) for k, v in values.items())
    ]


def table_cases():
    plain = st.one_of(st.integers(0, 7), st.integers(0, 3), st.booleans())
    rng = st.builds(lambda lo, w: [lo, min(7, lo + w)], st.integers(0, 7), st.integers(0, 4))
    cell = st.one_of(
        st.just(ANY),
        st.just([]),
        st.lists(st.one_of(plain, plain, rng), min_size=1, max_size=3),
        st.lists(plain, min_size=1, max_size=2),
    )

    @st.composite
    def case(draw):
        nkeys = draw(st.integers(1, 5))
        keys = ["k%d" % i for i in range(nkeys)]
        ncols = draw(st.integers(1, 5))
        table = []
        for ci in range(ncols):
            if ci > 0 and draw(st.integers(0, 2)) > 0:
                # like the real level tables: a variation of the column to the left
                column = dict(table[-1])
                for _ in range(draw(st.integers(0, 2))):
                    column[keys[draw(st.integers(0, nkeys - 1))]] = draw(cell)
                table.append(column)
                continue
            present = [draw(st.integers(0, 7)) > 0 for _ in keys]
            if not any(present):
                present[draw(st.integers(0, nkeys - 1))] = True
            table.append({k: draw(cell) for k, p in zip(keys, present) if p})
        pool = keys + (["zz"] if draw(st.integers(0, 5)) == 0 else [])
        order = draw(st.permutations(pool))
        length = len(order) - draw(st.integers(0, len(order)))  # biased towards complete sequences
        target = draw(st.integers(0, ncols - 1))
        seq = []
        for k in order[:length]:
            follow = draw(st.integers(0, 4)) > 0
            pick = draw(st.integers(0, 63))
            c = table[target].get(k)
            members = None
            if follow and c is not None and c != ANY:
                members = sorted(model_cell(c), key=lambda x: (int(x), isinstance(x, bool)))
            if members:
                v = members[pick % len(members)]
            else:
                v = TABLE_QUERY[pick % len(TABLE_QUERY)]
            seq.append([k, v])
        return {"kind": "table", "table": table, "seq": seq}

    return case()


def check_table(case, col, CT, A, State, ValueNotAllowedInLevel):
    table_json = case["table"]
    seq = [(k, v) for k, v in case["seq"]]
    data = case

    def fail(bucket, msg):
        col.fail(bucket, data, msg)

    stats = {"multi": False, "any": False}
    try:
        T = [dict((k, build_cell(c, CT)) for k, c in column.items()) for column in table_json]
        MT = [dict((k, model_cell(c)) for k, c in column.items()) for column in table_json]
        stats["any"] = any(c is ANY for column in MT for c in column.values())

        # allowed_values_for <-> is_allowed_combination <-> model, along every prefix
        chosen = {}
        for k, v in seq:
            if chosen and len(model_matching(MT, chosen)) >= 2:
                stats["multi"] = True
            allowed = CT.allowed_values_for(T, k, dict(chosen))
            for u in TABLE_QUERY:
                cand = dict(chosen)
                cand[k] = u
                exp = bool(model_matching(MT, cand))
                got_av = bool(u in allowed)
                got_ia = CT.is_allowed_combination(T, cand)
                if got_av != bool(got_ia):
                    fail("tbl-allowed-values-vs-combination",
                         "%r in allowed_values_for(T, %r, %r) is %r but is_allowed_combination(T, %r) is %r (model %r)"
                         % (u, k, chosen, got_av, cand, got_ia, exp))
                if bool(got_ia) != exp:
                    fail("tbl-is-allowed-vs-model", "is_allowed_combination(T, %r) = %r, model %r" % (cand, got_ia, exp))
                if got_av != exp:
                    fail("tbl-allowed-values-vs-model",
                         "%r in allowed_values_for(T, %r, %r) = %r, model %r" % (u, k, chosen, got_av, exp))
            chosen[k] = v

        # one value at a time, with the validator's own routine
        exp_reject = None
        for i in range(len(seq)):
            if not model_matching(MT, dict(seq[: i + 1])):
                exp_reject = i
                break
        state = State()
        got_reject = None
        saved = A.LEVEL_CONSTRAINTS
        A.LEVEL_CONSTRAINTS = T
        try:
            for i, (k, v) in enumerate(seq):
                try:
                    A.assert_level_constraint(state, k, v)
                except ValueNotAllowedInLevel:
                    got_reject = i
                    break
        finally:
            A.LEVEL_CONSTRAINTS = saved
        if got_reject != exp_reject:
            fail("tbl-sequential", "one-at-a-time checking of %r rejected at %r, the first disallowed prefix is at %r"
                 % (seq, got_reject, exp_reject))
        else:
            upto = len(seq) if exp_reject is None else exp_reject
            recorded = dict(state.get("_level_constrained_values", {}))
            if seq and recorded != dict(seq[:upto]):
                fail("tbl-sequential-recorded", "validator recorded %r after accepting %r" % (recorded, seq[:upto]))
        stats["reject"] = exp_reject
    except Exception as exc:
        bucket = _reraise_if_harness(col, exc)
        fail(bucket, "unexpected %s: %s" % (type(exc).__name__, exc))
    return stats


def table_labels(case, stats):
    cells = [c for column in case["table"] for c in column.values()]
    labels = ["table_case"]
    if stats.get("any"):
        labels.append("table_with_anyvalue_cell")
    if any(c == [] for c in cells):
        labels.append("table_with_empty_cell")
    if any(isinstance(x, list) for c in cells if c != ANY for x in c):
        labels.append("table_with_range_cell")
    keys = set(k for column in case["table"] for k in column)
    if any(set(column) != keys for column in case["table"]):
        labels.append("table_with_column_lacking_a_key")
    if stats.get("multi"):
        labels.append("table_prefix_matching_2plus_columns")
    if any(k == "zz" for k, _ in case["seq"]):
        labels.append("table_seq_with_unknown_key")
    if not case["seq"]:
        labels.append("table_seq_empty")
    elif stats.get("reject") is None:
        labels.append("table_seq_accepted_len_%d" % len(case["seq"]))
    else:
        labels.append("table_seq_rejected_at_%d" % stats["reject"])
    return labels


# ---------------------------------------------------------------------------
# (c) CSV

DITTO_CHARS = ['"', u"“", u"”"]
KEY_NAMES = ["level", "profile", "frame_width", "custom_dimensions_flag", "k", "slices_x", "dwt_depth", "Key 7", "q-index"]
COMMENTS = ["# (11.2.1)", "# SD480i-60", "#", "# a comment with spaces", "#x"]


def csv_cases():
    num = st.one_of(st.integers(0, 40), st.integers(0, 40), st.integers(0, 5000))
    rng = st.builds(lambda lo, w: [lo, lo + w], num, st.integers(0, 30))
    item = st.one_of(num, num, rng, st.booleans())
    ditto = st.builds(lambda ch: {"c": "ditto", "ch": ch}, st.sampled_from(DITTO_CHARS))
    plain_cells = [
        st.just({"c": "empty"}),
        st.just({"c": "any"}),
        st.builds(lambda items, sep, q: {"c": "set", "items": items, "sep": sep, "q": q},
                  st.lists(item, min_size=1, max_size=4), st.sampled_from([",", ", "]), st.integers(0, 5).map(lambda x: x == 0)),
        st.builds(lambda items: {"c": "set", "items": items, "sep": ",", "q": False}, st.lists(item, min_size=1, max_size=1)),
    ]
    # a ditto needs a value column to its left: never in the first value column
    first_cell = st.one_of(*plain_cells)
    cell = st.one_of(*(plain_cells + [ditto, ditto]))

    @st.composite
    def case(draw):
        width = draw(st.integers(1, 5))
        nrows = draw(st.integers(1, 7))
        names = draw(st.permutations(KEY_NAMES))
        rows = []
        nkey = 0
        for _ in range(nrows):
            t = draw(st.integers(0, 7))
            if t == 0:
                n = draw(st.integers(0, width + 2))
                rows.append({"t": "comment", "cells": [draw(st.sampled_from(COMMENTS + ["", ""])) for _ in range(n)]})
            elif t == 1:
                rows.append({"t": "comment", "cells": [""] * draw(st.integers(0, width + 2))})
            else:
                short = draw(st.integers(0, 5)) == 0
                n = draw(st.integers(0, width)) if short else width
                rows.append({"t": "data", "key": names[nkey], "cells": [draw(first_cell if i == 0 else cell) for i in range(n)]})
                nkey += 1
        eol = draw(st.sampled_from(["\n", "\n", "\r\n"]))
        final = draw(st.booleans())
        spec = {"kind": "csv", "rows": rows, "eol": eol, "final_eol": final}
        spec["text"] = render_csv(spec)
        return spec

    return case()


def _csv_quote(text, force=False):
    if force or any(ch in text for ch in ',"\r\n'):
        return '"' + text.replace('"', '""') + '"'
    return text


def _item_text(x):
    if isinstance(x, bool):
        return "TRUE" if x else "FALSE"
    if isinstance(x, (list, tuple)):
        return "%d-%d" % (x[0], x[1])
    return "%d" % x


def render_csv(spec):
    lines = []
    for row in spec["rows"]:
        if row["t"] == "comment":
            lines.append(",".join(_csv_quote(c) for c in row["cells"]))
            continue
        out = [_csv_quote(row["key"])]
        for c in row["cells"]:
            if c["c"] == "empty":
                out.append("")
            elif c["c"] == "any":
                out.append("any")
            elif c["c"] == "ditto":
                out.append(_csv_quote(c["ch"]))
            else:
                out.append(_csv_quote(c["sep"].join(_item_text(x) for x in c["items"]), c.get("q", False)))
        lines.append(",".join(out))
    text = spec["eol"].join(lines)
    if spec["final_eol"]:
        text += spec["eol"]
    return text


def model_csv(spec):
    """Expected table: list (one per column) of {key: set | ANY}; plus ditto statistics."""
    ncols = 0
    for row in spec["rows"]:
        if row["t"] == "data":
            ncols = max(ncols, len(row["cells"]))
    table = [dict() for _ in range(ncols)]
    info = {"ditto": 0, "ditto_nonempty": 0, "ditto_any": 0, "ditto_first": 0, "ditto_chain": 0,
            "ditto_differs_from_first": 0, "short": 0}
    for row in spec["rows"]:
        if row["t"] != "data":
            continue
        if len(row["cells"]) < ncols:
            info["short"] += 1
        prev = set()
        first = None
        prev_was_ditto = False
        for i, c in enumerate(row["cells"]):
            if c["c"] == "ditto":
                val = prev if prev is ANY else set(prev)
                info["ditto"] += 1
                if i == 0:
                    info["ditto_first"] += 1
                if val is ANY:
                    info["ditto_any"] += 1
                if val is ANY or val:
                    info["ditto_nonempty"] += 1
                if prev_was_ditto:
                    info["ditto_chain"] += 1
                if i >= 2:
                    same = (val is ANY and first is ANY) or (val is not ANY and first is not ANY and val == first)
                    if not same:
                        info["ditto_differs_from_first"] += 1
                prev_was_ditto = True
            else:
                prev_was_ditto = False
                if c["c"] == "any":
                    val = ANY
                elif c["c"] == "empty":
                    val = set()
                else:
                    val = model_cell(c["items"])
            if i == 0:
                first = val
            table[i][row["key"]] = val
            prev = val
    return table, info


def check_csv(case, col, CT, path):
    data = {"kind": "csv", "rows": case["rows"], "eol": case["eol"], "final_eol": case["final_eol"],
            "text": case.get("text")}
    text = case.get("text")
    if text is None:
        text = render_csv(case)
        data["text"] = text
    exp, info = model_csv(case)

    def fail(bucket, msg):
        col.fail(bucket, data, msg)

    try:
        with open(path, "w", encoding="utf-8", newline="") as f:
            f.write(text)
        got = CT.read_constraints_from_csv(path)
        if len(got) != len(exp):
            fail("csv-columns", "read %d columns, the file has %d" % (len(got), len(exp)))
            return info
        for i, (gcol, ecol) in enumerate(zip(got, exp)):
            if set(gcol) != set(ecol):
                fail("csv-keys", "column %d has keys %r, file gives %r" % (i, sorted(gcol), sorted(ecol)))
                continue
            for key, m in ecol.items():
                g = gcol[key]
                if m is ANY:
                    if not isinstance(g, CT.AnyValue):
                        fail("csv-any", "column %d key %r: 'any' (or a ditto of it) read as %r" % (i, key, g))
                    continue
                if isinstance(g, CT.AnyValue) or not isinstance(g, CT.ValueSet):
                    fail("csv-any", "column %d key %r: read as %r, file gives %s" % (i, key, g, _show(m)))
                    continue
                points = set(range(0, 42))
                for e in m:
                    points.update((int(e) - 1, int(e), int(e) + 1))
                bad = [p for p in sorted(points) if (p in g) != (p in m)]
                if bad or set(g.iter_values()) != m:
                    fail("csv-cell", "column %d key %r: read as %r, file gives %s (differs at %r)"
                         % (i, key, g, _show(m), bad[:5]))
    except Exception as exc:
        bucket = _reraise_if_harness(col, exc)
        fail(bucket, "unexpected %s: %s" % (type(exc).__name__, exc))
    return info


def csv_labels(case, info):
    labels = ["csv_case"]
    cells = [c for r in case["rows"] if r["t"] == "data" for c in r["cells"]]
    if info["ditto"]:
        labels.append("csv_with_ditto")
    if info["ditto_nonempty"]:
        labels.append("csv_with_ditto_of_nonempty_cell")
    if info["ditto_any"]:
        labels.append("csv_with_ditto_of_any")
    if info["ditto_first"]:
        labels.append("csv_with_ditto_in_first_column")
    if info["ditto_chain"]:
        labels.append("csv_with_ditto_chain")
    if info["ditto_differs_from_first"]:
        labels.append("csv_with_ditto_differing_from_first_column")
    if any(c["c"] == "ditto" and c["ch"] != '"' for c in cells):
        labels.append("csv_with_typographic_ditto")
    if info["short"]:
        labels.append("csv_with_short_row")
    if any(c["c"] == "any" for c in cells):
        labels.append("csv_with_any")
    if any(c["c"] == "set" and any(isinstance(x, list) for x in c["items"]) for c in cells):
        labels.append("csv_with_range")
    if any(c["c"] == "set" and any(isinstance(x, bool) for x in c["items"]) for c in cells):
        labels.append("csv_with_bool")
    if any(c["c"] == "set" and len(c["items"]) > 1 for c in cells):
        labels.append("csv_with_comma_list")
    if any(r["t"] == "comment" and any(c for c in r["cells"]) for r in case["rows"]):
        labels.append("csv_with_comment_row")
    if any(r["t"] == "comment" and not any(c for c in r["cells"]) for r in case["rows"]):
        labels.append("csv_with_blank_row")
    if case["eol"] == "\r\n":
        labels.append("csv_crlf")
    if not cells:
        labels.append("csv_without_data_cells")
    return labels


# ---------------------------------------------------------------------------
# harness entry points


def shards(tier):
    # exactly 16 shards: one per core, comparable cost each
    out = [("vs", "num", k) for k in range(6)] + [("vs", "sym", 0)]
    out += [("table", None, k) for k in range(4)]
    out += [("csv", None, k) for k in range(5)]
    return out


def _chunks(total, size):
    """Split a case budget into runs of at most ``size`` examples (keeps Hypothesis' bookkeeping small)."""
    out = []
    while total > 0:
        out.append(min(size, total))
        total -= out[-1]
    return out


def _imports():
    import importlib

    CT = importlib.import_module("vc2_conformance.constraint_table")
    A = importlib.import_module("vc2_conformance.decoder.assertions")
    State = importlib.import_module("vc2_conformance.pseudocode.state").State
    VN = importlib.import_module("vc2_conformance.decoder.exceptions").ValueNotAllowedInLevel
    return CT, A, State, VN


def run_shard(spec, ctx):
    from hypothesis import HealthCheck, Phase, seed, settings
    from hypothesis.stateful import run_state_machine_as_test

    CT, A, State, VN = _imports()
    col = ctx.col
    kind, mode, _k = spec
    if kind == "vs":
        machine = make_vs_machine(col, mode, CT, samples=(2 if _k == 0 and mode == "num" else 1 if mode == "sym" else 0))
        for j, n in enumerate(_chunks(ctx.pick(500, 30000), 10000)):
            run_state_machine_as_test(
                seed(ctx.seed + 104729 * j)(machine),
                settings=settings(
                    max_examples=n,
                    stateful_step_count=ctx.pick(25, 30),
                    deadline=None,
                    database=None,
                    phases=[Phase.generate],
                    suppress_health_check=list(HealthCheck),
                    print_blob=False,
                ),
            )
    elif kind == "table":

        def rerun_table(d, c=None):
            c = c if c is not None else Collector()
            check_table(d, c, CT, A, State, VN)
            return set(c.failures)

        def body(case, col):
            before = set(col.failures)
            stats = check_table(case, col, CT, A, State, VN)
            if len(col.failures) > len(before) and not ctx.thorough:
                _shrink_new(col, before, ["table", "seq"], rerun_table)
            col.case(key=("table", repr(case["table"]), repr(case["seq"])),
                     nontrivial=bool(stats.get("any") and stats.get("multi")),
                     labels=table_labels(case, stats),
                     sample=(lambda: case) if (_k == 0 and len(col.samples) < 2 and len(case["seq"]) >= 2
                                               and stats.get("reject") is None) else None)

        for j, n in enumerate(_chunks(ctx.pick(2000, 80000), 20000)):
            run_given(table_cases(), body, ctx, n, salt=j)
    else:
        fd, path = tempfile.mkstemp(prefix="vpbt-c17-", suffix=".csv")
        os.close(fd)
        try:

            def rerun_csv(d, c=None):
                c = c if c is not None else Collector()
                check_csv(dict(d, text=None), c, CT, path)
                return set(c.failures)

            def body(case, col):
                before = set(col.failures)
                info = check_csv(case, col, CT, path)
                if len(col.failures) > len(before) and not ctx.thorough:
                    _shrink_new(col, before, ["rows"], rerun_csv)
                col.case(key=("csv", case["text"]), nontrivial=info["ditto_nonempty"] > 0,
                         labels=csv_labels(case, info),
                         sample=(lambda: {"kind": "csv", "text": case["text"]}) if (
                             _k == 0 and len(col.samples) < 3 and len(case["rows"]) >= 3) else None)

            for j, n in enumerate(_chunks(ctx.pick(1200, 40000), 10000)):
                run_given(csv_cases(), body, ctx, n, salt=j)
        finally:
            try:
                os.unlink(path)
            except OSError:
                pass


def replay(data, col):
    CT, A, State, VN = _imports()
    col.evaluations += 1
    kind = data.get("kind")
    if kind == "vs":
        replay_vs(data, col, CT)
    elif kind == "table":
        check_table(data, col, CT, A, State, VN)
    elif kind == "csv":
        fd, path = tempfile.mkstemp(prefix="vpbt-c17-", suffix=".csv")
        os.close(fd)
        try:
            check_csv(data, col, CT, path)
        finally:
            os.unlink(path)
    else:
        raise ValueError("unknown C17 replay kind %r" % (kind,))
