"""Shared by C08 / C09: conformant stream variants, validator state capture, harness decode model."""

import contextlib
import copy
import importlib

from hypothesis import strategies as st

from vc2_data_tables import PictureCodingModes, Profiles

from vpbt.gen import configs as G
from vpbt.gen import corpus as C
from vpbt.gen import pictures as P
from vpbt.gen import repack as R
from vpbt.gen import streams as S
from vpbt.oracles import geometry as GEO


@st.composite
def cases(draw, thorough=False, heavy=False):
    cf = draw(G.codec_features(max_size=20 if not thorough else 32, max_depth_bits=12 if not thorough else 16,
                               max_dwt=2 if not thorough else 3, max_dwt_ho=2, max_slices=4))
    fields = cf["picture_coding_mode"] == PictureCodingModes.pictures_are_fields
    specs = draw(P.picture_specs(1, 2, even=fields))
    nums = draw(P.picture_numbers(len(specs), fields))
    plan = draw(R.repack_plan())
    if heavy and plan["mode"] in ("keep", "small"):
        plan["mode"] = draw(st.sampled_from(["extreme", "huge", "mixed"]))
        plan["qmode"] = "random"
    return cf, specs, nums, plan


@st.composite
def multi_cases(draw, thorough=False):
    """2-3 sequences for one stream. Later sequences are often *siblings* of the first: same transform and slice
    parameters (wavelets, depths, slice counts, fragment size, budget) but other video parameters (picture size, chroma
    format, depths) and picture coding mode -- anything a reader keeps from one sequence must not leak into the next."""
    from vc2_conformance.codec_features import CodecFeatures

    first = draw(cases(thorough=thorough))
    parts = [first]
    for _ in range(draw(st.sampled_from([1, 1, 2]))):
        if draw(st.sampled_from([True, True, False])):
            cf0 = first[0]
            vp, pcm = draw(G.video_parameters(max_size=20 if not thorough else 32, max_depth=12 if not thorough else 16))
            cf = CodecFeatures(cf0, video_parameters=vp, picture_coding_mode=pcm)
            fields = pcm == PictureCodingModes.pictures_are_fields
            specs = draw(P.picture_specs(1, 2, even=fields))
            parts.append((cf, specs, draw(P.picture_numbers(len(specs), fields)), draw(R.repack_plan())))
        else:
            parts.append(draw(cases(thorough=thorough)))
    return parts


def case_json(cf, specs, nums, plan):
    return {"config": G.config_json(cf), "specs": [list(s) for s in specs], "pic_nums": nums, "plan": plan}


def case_from_json(d):
    return G.config_from_json(d["config"]), [tuple(s) for s in d["specs"]], d["pic_nums"], d["plan"]


def build_stream(cf, specs, nums, plan):
    """-> (bytes, facts) or raises UnsatisfiableCodecFeaturesError"""
    from vc2_conformance import bitstream as B
    from vc2_conformance.encoder import make_sequence

    pictures = P.build_pictures(cf, specs, nums)
    patterns = []
    if plan.get("pad_units"):
        patterns = ["sequence_header (padding_data . auxiliary_data)* end_of_sequence"]
    try:
        seq = make_sequence(cf, pictures, *patterns)
    except Exception:
        if not patterns:
            raise
        seq = make_sequence(cf, pictures)
    facts = R.repack_sequence(seq, cf, plan["seed"], plan["mode"], plan["qmode"])
    import random

    rnd = random.Random(plan["seed"] ^ 0x5A5A)
    for du in seq["data_units"]:
        if "padding" in du:
            du["padding"]["bytes"] = bytes(rnd.getrandbits(8) for _ in range(rnd.randint(0, 12)))
        if "auxiliary_data" in du:
            du["auxiliary_data"]["bytes"] = bytes(rnd.getrandbits(8) for _ in range(rnd.randint(0, 12)))
    data = S.serialise_stream(B.Stream(sequences=[seq]))
    return data, facts, pictures


@contextlib.contextmanager
def capture_decoder_state(records):
    """Rebind decoder.stream.picture_decode so that the transform data the validator decoded is recorded."""
    stream_mod = importlib.import_module("vc2_conformance.decoder.stream")
    orig = stream_mod.picture_decode

    def recorder(state):
        records.append(dict(
            y=copy.deepcopy(state["y_transform"]), c1=copy.deepcopy(state["c1_transform"]), c2=copy.deepcopy(state["c2_transform"]),
            quant_matrix=copy.deepcopy(state.get("quant_matrix")),
            params={k: state.get(k) for k in ("wavelet_index", "wavelet_index_ho", "dwt_depth", "dwt_depth_ho", "slices_x", "slices_y",
                                              "luma_width", "luma_height", "color_diff_width", "color_diff_height", "luma_depth",
                                              "color_diff_depth", "picture_number", "slice_prefix_bytes", "slice_size_scaler",
                                              "slice_bytes_numerator", "slice_bytes_denominator", "major_version", "profile", "level",
                                              "picture_coding_mode")},
            video_parameters=dict(state["video_parameters"]),
        ))
        return orig(state)

    stream_mod.picture_decode = recorder
    try:
        yield
    finally:
        stream_mod.picture_decode = orig


# ---------------------------------------------------------------------------
# harness' reading of a deserialised description


def video_parameters_from_header(sh):
    """Harness' own application of base format + custom overrides (11.4), by table lookup."""
    import vc2_data_tables as T

    base = T.BASE_VIDEO_FORMAT_PARAMETERS[T.BaseVideoFormats(int(sh["base_video_format"]))]
    vp = {}
    sp = sh["video_parameters"]
    fs = sp["frame_size"]
    vp["frame_width"], vp["frame_height"] = base.frame_width, base.frame_height
    if fs["custom_dimensions_flag"]:
        vp["frame_width"], vp["frame_height"] = fs["frame_width"], fs["frame_height"]
    cd = sp["color_diff_sampling_format"]
    vp["color_diff_format_index"] = int(cd["color_diff_format_index"]) if cd["custom_color_diff_format_flag"] else int(base.color_diff_format_index)
    sf = sp["scan_format"]
    vp["source_sampling"] = int(sf["source_sampling"]) if sf["custom_scan_format_flag"] else int(base.source_sampling)
    vp["top_field_first"] = base.top_field_first
    fr = sp["frame_rate"]
    pfr = T.PRESET_FRAME_RATES[base.frame_rate_index]
    vp["frame_rate_numer"], vp["frame_rate_denom"] = pfr.numerator, pfr.denominator
    if fr["custom_frame_rate_flag"]:
        if int(fr["index"]) == 0:
            vp["frame_rate_numer"], vp["frame_rate_denom"] = fr["frame_rate_numer"], fr["frame_rate_denom"]
        else:
            p = T.PRESET_FRAME_RATES[T.PresetFrameRates(int(fr["index"]))]
            vp["frame_rate_numer"], vp["frame_rate_denom"] = p.numerator, p.denominator
    par = sp["pixel_aspect_ratio"]
    pp = T.PRESET_PIXEL_ASPECT_RATIOS[base.pixel_aspect_ratio_index]
    vp["pixel_aspect_ratio_numer"], vp["pixel_aspect_ratio_denom"] = pp.numerator, pp.denominator
    if par["custom_pixel_aspect_ratio_flag"]:
        if int(par["index"]) == 0:
            vp["pixel_aspect_ratio_numer"], vp["pixel_aspect_ratio_denom"] = par["pixel_aspect_ratio_numer"], par["pixel_aspect_ratio_denom"]
        else:
            p = T.PRESET_PIXEL_ASPECT_RATIOS[T.PresetPixelAspectRatios(int(par["index"]))]
            vp["pixel_aspect_ratio_numer"], vp["pixel_aspect_ratio_denom"] = p.numerator, p.denominator
    ca = sp["clean_area"]
    for k in ("clean_width", "clean_height", "left_offset", "top_offset"):
        vp[k] = ca[k] if ca["custom_clean_area_flag"] else getattr(base, k)
    sr = sp["signal_range"]
    psr = T.PRESET_SIGNAL_RANGES[base.signal_range_index]
    rng = dict(luma_offset=psr.luma_offset, luma_excursion=psr.luma_excursion, color_diff_offset=psr.color_diff_offset,
               color_diff_excursion=psr.color_diff_excursion)
    if sr["custom_signal_range_flag"]:
        if int(sr["index"]) == 0:
            rng = {k: sr[k] for k in rng}
        else:
            p = T.PRESET_SIGNAL_RANGES[T.PresetSignalRanges(int(sr["index"]))]
            rng = dict(luma_offset=p.luma_offset, luma_excursion=p.luma_excursion, color_diff_offset=p.color_diff_offset,
                       color_diff_excursion=p.color_diff_excursion)
    vp.update(rng)
    cs = sp["color_spec"]
    pcs = T.PRESET_COLOR_SPECS[base.color_spec_index]
    spec = dict(color_primaries_index=int(pcs.color_primaries_index), color_matrix_index=int(pcs.color_matrix_index),
                transfer_function_index=int(pcs.transfer_function_index))
    if cs["custom_color_spec_flag"]:
        p = T.PRESET_COLOR_SPECS[T.PresetColorSpecs(int(cs["index"]))]
        spec = dict(color_primaries_index=int(p.color_primaries_index), color_matrix_index=int(p.color_matrix_index),
                    transfer_function_index=int(p.transfer_function_index))
        if int(cs["index"]) == 0:
            if cs["color_primaries"]["custom_color_primaries_flag"]:
                spec["color_primaries_index"] = int(cs["color_primaries"]["index"])
            if cs["color_matrix"]["custom_color_matrix_flag"]:
                spec["color_matrix_index"] = int(cs["color_matrix"]["index"])
            if cs["transfer_function"]["custom_transfer_function_flag"]:
                spec["transfer_function_index"] = int(cs["transfer_function"]["index"])
    vp.update(spec)
    return vp


def pictures_from_description(desc):
    """Group a deserialised stream into pictures:
    [{picture_number, transform_parameters, slices:[{qindex,Y,C1,C2}], ld, header(SH description), sequence index}]"""
    out = []
    units = []
    for si, seq in enumerate(desc["sequences"]):
        sh = None
        cur = None
        for du in seq["data_units"]:
            pc = int(du["parse_info"]["parse_code"])
            units.append(pc)
            if "sequence_header" in du:
                sh = du["sequence_header"]
            elif "picture_parse" in du:
                wt = du["picture_parse"]["wavelet_transform"]
                td = wt["transform_data"]
                ld = "ld_slices" in td
                cur = dict(picture_number=du["picture_parse"]["picture_header"]["picture_number"], tp=wt["transform_parameters"],
                           slices=[], ld=ld, header=sh, seq=si, complete=True)
                cur["slices"] = [norm_slice(s, ld) for s in (td["ld_slices"] if ld else td["hq_slices"])]
                out.append(cur)
            elif "fragment_parse" in du:
                fp = du["fragment_parse"]
                if fp["fragment_header"]["fragment_slice_count"] == 0:
                    cur = dict(picture_number=fp["fragment_header"]["picture_number"], tp=fp["transform_parameters"], slices=[],
                               ld=pc == 0xCC, header=sh, seq=si, complete=False)
                    out.append(cur)
                else:
                    fd = fp["fragment_data"]
                    ld = "ld_slices" in fd
                    cur["slices"].extend(norm_slice(s, ld) for s in (fd["ld_slices"] if ld else fd["hq_slices"]))
    return out, units


def norm_slice(s, ld):
    if ld:
        c = list(s["c_transform"])
        return dict(qindex=s["qindex"], Y=list(s["y_transform"]), C1=c[0::2], C2=c[1::2])
    return dict(qindex=s["qindex"], Y=list(s["y_transform"]), C1=list(s["c1_transform"]), C2=list(s["c2_transform"]))


def matrix_for(tp):
    """Quantisation matrix of a picture from its (deserialised) transform parameters."""
    import vc2_data_tables as T

    wi = int(tp["wavelet_index"])
    etp = tp.get("extended_transform_parameters", {})
    wi_ho = int(etp["wavelet_index_ho"]) if etp.get("asym_transform_index_flag") else wi
    depth = tp["dwt_depth"]
    depth_ho = etp["dwt_depth_ho"] if etp.get("asym_transform_flag") else 0
    qm = tp["quant_matrix"]
    if qm["custom_quant_matrix"]:
        vals = list(qm["quant_matrix"])
        m = {}
        k = 0
        for level in range(0, depth + depth_ho + 1):
            m[level] = {}
            for o in GEO.orients(depth, depth_ho, level):
                m[level][o] = vals[k]
                k += 1
    else:
        m = T.QUANTISATION_MATRICES[(wi, wi_ho, depth, depth_ho)]
    return m, wi, wi_ho, depth, depth_ho


def model_transforms(pic):
    """Dequantised, DC-predicted transform arrays of one picture, from the description alone."""
    vp = video_parameters_from_header(pic["header"])
    fields = int(pic["header"]["picture_coding_mode"]) == 1
    lw, lh, cw, ch = GEO.component_dims(vp["frame_width"], vp["frame_height"], vp["color_diff_format_index"], fields)
    m, wi, wi_ho, depth, depth_ho = matrix_for(pic["tp"])
    sp = pic["tp"]["slice_parameters"]
    arrays = GEO.place_slices(pic["slices"], {"Y": (lw, lh), "C1": (cw, ch), "C2": (cw, ch)}, depth, depth_ho,
                              sp["slices_x"], sp["slices_y"], m, pic["ld"])
    return arrays, vp, dict(wavelet_index=wi, wavelet_index_ho=wi_ho, dwt_depth=depth, dwt_depth_ho=depth_ho,
                            slices_x=sp["slices_x"], slices_y=sp["slices_y"], luma_width=lw, luma_height=lh,
                            color_diff_width=cw, color_diff_height=ch)
