"""C28 — codec-features CSV reading either succeeds in-domain or explains.

Cases are CSV *texts*.  A table (list of rows of cells) is taken from one of the
two sample files shipped with the repository or synthesised column by column from
the documented domains, edited by 0..4 drawn mutation operators (cell, row,
column and text level) and rendered by the harness' own CSV writer (drawn quoting
style, line terminator, BOM, trailing newline).  A second family is random CSV
from an alphabet of cell fragments.  The text is written to a scratch file and
handed to ``read_codec_features_csv`` exactly as the command line tool does:
``open(path, "r", encoding="utf-8-sig")`` (universal newlines).

Oracle (own): either InvalidCodecFeaturesError, or an OrderedDict with exactly one
entry per non-empty column (own count from an independent reading of the file)
whose every field satisfies the harness' own domain table written from
docs/source/user_guide/generating_test_cases.rst.  Anything else is a violation.
"""

import csv
import json
import os
import random
import shutil
import tempfile
from collections import OrderedDict

from hypothesis import strategies as st

from vpbt.core import run_given, hash64

from vc2_data_tables import (
    Levels,
    Profiles,
    PictureCodingModes,
    WaveletFilters,
    ColorDifferenceSamplingFormats,
    BaseVideoFormats,
    SourceSamplingModes,
    PresetColorPrimaries,
    PresetColorMatrices,
    PresetTransferFunctions,
)

ID = "C28"
LEVEL = "exploration"
RULE = (
    "Family 'mutated' (5/6 of cases): a table from tests/sample_codec_features.csv, the documentation's "
    "sample_codec_features.csv or 1..4 columns synthesised from the documented domains (aliases or numbers, every bool "
    "spelling, 'default', lossless columns with blank picture_bytes, custom quantisation matrices of the right length), "
    "edited by 0..4 Hypothesis-drawn operators: cell := payload (empty, default/DEFAULT, malformed/negative/huge/float/"
    "hex/unicode-digit numbers, unknown or wrong-case aliases, whitespace, quotes/commas/newlines), cell := another "
    "valid value, make column lossless (with or without blanking picture_bytes), matrix/depth edits, row delete / "
    "duplicate / move / shuffle / unknown row / comment out / blank key, column duplicate (same name) / duplicate "
    "renamed / delete / blank, name edits (duplicate, empty, whitespace), ragged rows, a cell above the csv field limit; rendered with drawn quoting, "
    "line terminator (LF/CRLF/CR), BOM, missing final newline, unclosed quote. Family 'random': 0..40 rows of cells "
    "drawn from a fragment alphabet. The text goes through a file opened as the CLI opens it. Non-trivial = parses "
    "with >= 2 configurations, or is rejected with a message that names a row the mutation touched; distinct by hash "
    "of the text."
)
ASSUMPTIONS = [
    "CSV text reaches the reader only through a file opened in text mode with encoding utf-8-sig and universal "
    "newlines, as vc2-test-case-generator does; texts are valid Unicode (no lone surrogates).",
    "Documented minimums (own table): slices_x, slices_y, picture_bytes, frame size, frame rate, pixel aspect ratio and "
    "excursions >= 1; depths, fragment_slice_count, clean area, offsets >= 0. Quantisation matrix values may be any int.",
    "Cells of up to 131 123 characters are generated (above Python's csv field limit of 131072, which once leaked "
    "_csv.Error; regression in regressions/C28/csv-field-limit.json).",
]



def EXHAUSTIVE(tier):
    return False


# --------------------------------------------------------------------------
# own domain table, from the documentation

ENUM_FIELDS = {
    "level": Levels,
    "profile": Profiles,
    "picture_coding_mode": PictureCodingModes,
    "wavelet_index": WaveletFilters,
    "wavelet_index_ho": WaveletFilters,
}
INT_FIELDS = {"dwt_depth": 0, "dwt_depth_ho": 0, "slices_x": 1, "slices_y": 1, "fragment_slice_count": 0}
VP_ENUM_FIELDS = {
    "color_diff_format_index": ColorDifferenceSamplingFormats,
    "source_sampling": SourceSamplingModes,
    "color_primaries_index": PresetColorPrimaries,
    "color_matrix_index": PresetColorMatrices,
    "transfer_function_index": PresetTransferFunctions,
}
VP_INT_FIELDS = {
    "frame_width": 1, "frame_height": 1, "frame_rate_numer": 1, "frame_rate_denom": 1,
    "pixel_aspect_ratio_numer": 1, "pixel_aspect_ratio_denom": 1, "clean_width": 0, "clean_height": 0,
    "left_offset": 0, "top_offset": 0, "luma_offset": 0, "luma_excursion": 1, "color_diff_offset": 0,
    "color_diff_excursion": 1,
}
VP_ORDER = [
    "frame_width", "frame_height", "color_diff_format_index", "source_sampling", "top_field_first",
    "frame_rate_numer", "frame_rate_denom", "pixel_aspect_ratio_numer", "pixel_aspect_ratio_denom",
    "clean_width", "clean_height", "left_offset", "top_offset", "luma_offset", "luma_excursion",
    "color_diff_offset", "color_diff_excursion", "color_primaries_index", "color_matrix_index",
    "transfer_function_index",
]
ROW_ORDER = (["name", "level", "profile", "base_video_format", "picture_coding_mode"] + VP_ORDER +
             ["wavelet_index", "wavelet_index_ho", "dwt_depth", "dwt_depth_ho", "slices_x", "slices_y", "lossless",
              "picture_bytes", "fragment_slice_count", "quantization_matrix"])
FEATURE_KEYS = sorted(["name", "video_parameters", "lossless", "picture_bytes", "quantization_matrix"] +
                      list(ENUM_FIELDS) + list(INT_FIELDS))


def expected_matrix_shape(dwt_depth, dwt_depth_ho):
    shape = {}
    if dwt_depth_ho == 0:
        shape[0] = ["LL"]
    else:
        shape[0] = ["L"]
        for level in range(1, dwt_depth_ho + 1):
            shape[level] = ["H"]
    for level in range(dwt_depth_ho + 1, dwt_depth_ho + dwt_depth + 1):
        shape[level] = ["HH", "HL", "LH"]
    return shape


def domain_problems(key, f):
    """List of reasons why configuration f (a CodecFeatures) is outside the documented domain."""
    out = []
    try:
        if sorted(f.keys()) != FEATURE_KEYS:
            return ["fields present: %r" % (sorted(f.keys()),)]
        if type(f["name"]) is not str or f["name"] != key:
            out.append("name %r under key %r" % (f["name"], key))
        for k, enum in ENUM_FIELDS.items():
            if not isinstance(f[k], enum):
                out.append("%s=%r is not a member of %s" % (k, f[k], enum.__name__))
        for k, minimum in INT_FIELDS.items():
            if type(f[k]) is not int or f[k] < minimum:
                out.append("%s=%r is not an int >= %d" % (k, f[k], minimum))
        if type(f["lossless"]) is not bool:
            out.append("lossless=%r is not a bool" % (f["lossless"],))
        elif f["lossless"]:
            if f["picture_bytes"] is not None:
                out.append("lossless but picture_bytes=%r" % (f["picture_bytes"],))
        else:
            if type(f["picture_bytes"]) is not int or f["picture_bytes"] < 1:
                out.append("lossy but picture_bytes=%r is not an int >= 1" % (f["picture_bytes"],))
        vp = f["video_parameters"]
        if not hasattr(vp, "keys") or sorted(vp.keys()) != sorted(VP_ORDER):
            out.append("video_parameters incomplete: %r" % (vp,))
        else:
            for k, enum in VP_ENUM_FIELDS.items():
                if not isinstance(vp[k], enum):
                    out.append("video_parameters[%s]=%r is not a member of %s" % (k, vp[k], enum.__name__))
            for k, minimum in VP_INT_FIELDS.items():
                if type(vp[k]) is not int or vp[k] < minimum:
                    out.append("video_parameters[%s]=%r is not an int >= %d" % (k, vp[k], minimum))
            if type(vp["top_field_first"]) is not bool:
                out.append("video_parameters[top_field_first]=%r is not a bool" % (vp["top_field_first"],))
        qm = f["quantization_matrix"]
        if qm is not None:
            ok_depths = type(f["dwt_depth"]) is int and type(f["dwt_depth_ho"]) is int and f["dwt_depth"] >= 0 and f["dwt_depth_ho"] >= 0
            if not isinstance(qm, dict):
                out.append("quantization_matrix=%r" % (qm,))
            elif ok_depths:
                shape = expected_matrix_shape(f["dwt_depth"], f["dwt_depth_ho"])
                got = {lvl: sorted(o) if isinstance(o, dict) else o for lvl, o in qm.items()}
                if got != shape:
                    out.append("quantization_matrix levels/orientations %r, expected %r for dwt_depth=%d dwt_depth_ho=%d"
                               % (got, shape, f["dwt_depth"], f["dwt_depth_ho"]))
                elif not all(type(v) is int for o in qm.values() for v in o.values()):
                    out.append("quantization_matrix has non-int values: %r" % (qm,))
    except Exception as e:  # a malformed structure is itself a domain problem
        out.append("structure not inspectable: %r" % (e,))
    return out


def own_columns(f):
    """Independent reading of the (rewound) file: [(column index, explicit name or None)] of the non-empty columns."""
    nonempty = {}
    for row in csv.reader(f):
        if not row:
            continue
        key = row[0].strip()
        if key == "" or key[0] == "#":
            continue
        for i, cell in enumerate(row[1:]):
            cell = cell.strip()
            if cell:
                nonempty.setdefault(i, None)
                if key == "name":
                    # a later blank 'name' cell does not erase an earlier one (documented: blank cells are absent)
                    nonempty[i] = cell
    return sorted(nonempty.items())


# --------------------------------------------------------------------------
# the check, from plain text


def check_text(text, col, tmp, data=None, touched=()):
    """Returns (outcome label, nontrivial, detail)."""
    from vc2_conformance.codec_features import read_codec_features_csv, InvalidCodecFeaturesError

    data = data if data is not None else {"text": text}
    path = os.path.join(tmp, "features.csv")
    with open(path, "w", encoding="utf-8", newline="") as f:
        f.write(text)
    cols = None
    try:
        with open(path, "r", encoding="utf-8-sig") as f:
            result = read_codec_features_csv(f)
            f.seek(0)
            cols = own_columns(f)
    except InvalidCodecFeaturesError as e:
        msg = str(e)
        kind = ("missing" if msg.startswith("Missing entry") else "invalid" if msg.startswith("Invalid entry") else
                "duplicate-name" if "more than once" in msg else "unrecognised-row" if msg.startswith("Unrecognised") else
                "picture_bytes-when-lossless" if "lossless" in msg else
                "malformed-csv" if msg.startswith("Malformed CSV") else "other-message")
        named = any(t and t in msg for t in touched)
        return "error:" + kind, named, msg[:200]
    except Exception as e:
        col.fail(col.crash_bucket(e, "other-exception"), data,
                 "read_codec_features_csv raised %s: %s instead of InvalidCodecFeaturesError" % (type(e).__name__, str(e)[:300]))
        return "other-exception:" + type(e).__name__, False, repr(e)[:200]

    if not isinstance(result, OrderedDict):
        col.fail("result-type", data, "returned %s, not an OrderedDict" % type(result).__name__)
        return "ok:bad-type", False, ""
    if len(result) != len(cols):
        col.fail("column-count", data,
                 "file has %d non-empty columns (names %r) but %d configurations were returned (%r): columns merged or dropped"
                 % (len(cols), [n for _, n in cols], len(result), list(result)))
    else:
        missing = [n for _, n in cols if n is not None and n not in result]
        if missing:
            col.fail("names-lost", data, "columns named %r are not in the result %r" % (missing, list(result)))
    for key, features in result.items():
        problems = domain_problems(key, features)
        if problems:
            bucket = "out-of-domain:" + problems[0].split("=")[0].split(" ")[0]
            col.fail(bucket, data, "configuration %r returned outside documented domain: %s" % (key, "; ".join(problems[:3])))
    return "ok:%s" % (len(result) if len(result) < 5 else "5+"), len(result) >= 2, list(result)


# --------------------------------------------------------------------------
# tables


def _load(path):
    with open(path, "r", encoding="utf-8-sig", newline="") as f:
        return [list(r) for r in csv.reader(f)]


_BASES = None


def bases():
    global _BASES
    if _BASES is None:
        from vpbt import core

        _BASES = [
            _load(os.path.join(core.REPO, "tests", "sample_codec_features.csv")),
            _load(os.path.join(core.REPO, "docs", "source", "_static", "user_guide", "sample_codec_features.csv")),
        ]
    return _BASES


def enum_text(rnd, enum):
    m = rnd.choice(list(enum))
    return rnd.choice([m.name, m.name, str(int(m))])


TRUE_WORDS = ["TRUE", "true", "True", "1", "t", "T", "y", "Yes", "YES"]
FALSE_WORDS = ["FALSE", "false", "False", "0", "f", "F", "n", "No", "NO"]


def small_int(rnd, minimum):
    return str(rnd.choice([minimum, minimum, minimum + 1, rnd.randint(minimum, minimum + 20), rnd.randint(minimum, 5000),
                           rnd.randint(minimum, 1 << 40)]))


def matrix_text(rnd, dwt_depth, dwt_depth_ho, delta=0):
    n = 1 + dwt_depth_ho + 3 * dwt_depth + delta
    sep = rnd.choice([" ", " ", "  ", "\t", " \n"])
    return sep.join(str(rnd.choice([0, 1, 2, 4, 8, 12, 127, rnd.randint(0, 300)])) for _ in range(max(n, 0)))


def valid_value(rnd, key, column=None):
    """A value the documentation allows for row `key` (column: values already chosen, for dependent rows)."""
    column = column or {}
    if key == "name":
        return rnd.choice(["cfg", "hd", "my codec", "column_B", "x-%d" % rnd.randint(0, 99), "Ünï", "a b", "n%d" % rnd.randint(0, 5)])
    if key in ENUM_FIELDS:
        return enum_text(rnd, ENUM_FIELDS[key])
    if key == "base_video_format":
        return enum_text(rnd, BaseVideoFormats)
    if key in VP_ENUM_FIELDS:
        return rnd.choice(["default", enum_text(rnd, VP_ENUM_FIELDS[key])])
    if key in VP_INT_FIELDS:
        return rnd.choice(["default", "default", small_int(rnd, VP_INT_FIELDS[key])])
    if key == "top_field_first":
        return rnd.choice(["default", "Default"] + TRUE_WORDS[:3] + FALSE_WORDS[:3])
    if key in ("dwt_depth", "dwt_depth_ho"):
        return str(rnd.choice([0, 0, 1, 2, 3, 4, rnd.randint(0, 9)]))
    if key in INT_FIELDS:
        return small_int(rnd, INT_FIELDS[key])
    if key == "lossless":
        return rnd.choice(TRUE_WORDS + FALSE_WORDS + FALSE_WORDS)
    if key == "picture_bytes":
        if column.get("lossless", "").lower() in [w.lower() for w in TRUE_WORDS]:
            return ""
        return small_int(rnd, 1)
    if key == "quantization_matrix":
        try:
            d, dh = int(column.get("dwt_depth", "0")), int(column.get("dwt_depth_ho", "0"))
        except ValueError:
            d, dh = 0, 0
        if rnd.random() < 0.5 or d > 9 or dh > 9:
            return rnd.choice(["default", "default", "DEFAULT"])
        return matrix_text(rnd, d, dh)
    return "default"


def synth_table(rnd, ncols):
    cols = []
    for c in range(ncols):
        column = {}
        for key in ROW_ORDER:
            column[key] = valid_value(rnd, key, column)
        column["name"] = "%s%d" % (column["name"], c)
        cols.append(column)
    rows = []
    order = list(ROW_ORDER)
    if rnd.random() < 0.3:
        head, tail = order[:1], order[1:]
        rnd.shuffle(tail)
        order = head + tail
    for key in order:
        if rnd.random() < 0.1:
            rows.append(["# comment"] + [""] * ncols)
        if rnd.random() < 0.05:
            rows.append([""] * (ncols + 1))
        rows.append([key] + [col[key] for col in cols])
    return rows


PAYLOADS = [
    "", " ", "default", "DEFAULT", " Default ", "defaults", "0", "-1", "1", "2", "+3", "007", "1.5", "1e3", "0x10", "12a",
    "--1", "1_0", "١٢", "１２", "\U0001d7d9", " 7 ", "\t8\t", "9" * 30, "9" * 4400, "-" + "9" * 30, "99",
    "255", "-0", "TRUE", "false", "T", "y", "No", "maybe", "unknown_enum", "HD1080P_50", "Haar_With_Shift",
    "haar_no_shift", "low_delay", "high_quality", "pictures_are_fields", "color_4_2_0", "rgb", "hdtv", "linear",
    "custom_format", "sub_sd", "64", "3", "1 2 3 4", "0 0 0 0 0 0 0", "4 2 2 0 4 4 2", "1\t2\n3  4", "1 2 x",
    "-1 -2 -3 -4", "1.0 2 3 4", "1,2,3,4", "a,b", 'q"q', "line\nbreak", "\u00a0", "\u2003x", "é", "#c", "name",
    "None", "null", "nan", "inf", "1" + "0" * 400, "\x00", "\x1c5", "5\x85", "\ufeff5", "\ue000\"240", "\ue00024\"0",
    "\ue000\"a\"\"", "x" * 100000,
]
UNKNOWN_KEYS = ["foobar", "Level", "LEVEL", "slices_z", "name ", " level", "picture_bytes_", "é", "quantisation_matrix", "0", "#", "default"]

N_OPS = 21


def data_rows(table):
    return [i for i, r in enumerate(table) if r and r[0].strip() and not r[0].strip().startswith("#")]


def find_row(table, key):
    hits = [i for i, r in enumerate(table) if r and r[0].strip() == key]
    return hits[-1] if hits else None


def ncols(table):
    return max([len(r) for r in table] + [1]) - 1


def set_cell(table, r, c, value):
    row = table[r]
    while len(row) <= c:
        row.append("")
    row[c] = value


def apply_op(table, op, touched, ops_used):
    """Apply one drawn operator (tuple of ints) in place; records row keys it touches."""
    kind, a, b, c = op
    kind %= N_OPS
    rnd = random.Random((a << 40) ^ (b << 20) ^ c ^ kind)
    rows = data_rows(table)
    n = ncols(table)
    if not rows or n == 0:
        kind = 6  # only adding a row makes sense
    name = None
    if kind in (0, 1, 2):
        r = rows[a % len(rows)]
        col_ = 1 + b % n
        key = table[r][0].strip()
        if kind == 0:
            name = "cell:=payload"
            set_cell(table, r, col_, PAYLOADS[c % len(PAYLOADS)])
        elif kind == 1:
            name = "cell:=valid"
            set_cell(table, r, col_, valid_value(rnd, key))
        else:
            name = "cell:=numeric-edge"
            set_cell(table, r, col_, rnd.choice(["0", "-1", "1", "2", "-2", str(1 << 64), "00", "-0", "0.0", "1 "]))
        touched.add(key)
    elif kind == 3:
        name = "make-lossless"
        col_ = 1 + b % n
        rl, rp = find_row(table, "lossless"), find_row(table, "picture_bytes")
        if rl is not None:
            set_cell(table, rl, col_, rnd.choice(TRUE_WORDS))
            touched.add("lossless")
        if rp is not None and c % 4 != 0:
            set_cell(table, rp, col_, rnd.choice(["", "", " ", "\t"]))
        touched.add("picture_bytes")
    elif kind == 4:
        name = "matrix/depth"
        col_ = 1 + b % n
        d, dh = c % 5, (c // 5) % 4
        rd, rh, rq = find_row(table, "dwt_depth"), find_row(table, "dwt_depth_ho"), find_row(table, "quantization_matrix")
        if rd is not None and a % 3 != 0:
            set_cell(table, rd, col_, str(d))
        if rh is not None and a % 3 != 1:
            set_cell(table, rh, col_, str(dh))
        if rq is not None:
            set_cell(table, rq, col_, matrix_text(rnd, d, dh, delta=rnd.choice([0, 0, 0, 1, -1, 3])))
        touched.update(["quantization_matrix", "dwt_depth", "dwt_depth_ho"])
    elif kind == 5:
        name = "row-delete"
        r = rows[a % len(rows)]
        touched.add(table[r][0].strip())
        del table[r]
    elif kind == 6:
        name = "row-unknown"
        key = UNKNOWN_KEYS[a % len(UNKNOWN_KEYS)]
        cells = [PAYLOADS[(c + i) % len(PAYLOADS)] if (b >> i) & 1 else "" for i in range(max(n, 1))]
        table.insert(c % (len(table) + 1), [key] + cells)
        touched.add(key.strip())
    elif kind == 7:
        name = "row-duplicate"
        r = rows[a % len(rows)]
        new = list(table[r])
        if len(new) > 1 and b % 2:
            new[1 + (b // 2) % (len(new) - 1)] = PAYLOADS[c % len(PAYLOADS)]
        table.insert(c % (len(table) + 1), new)
        touched.add(new[0].strip())
    elif kind == 8:
        name = "row-move/shuffle"
        if a % 4 == 0:
            rnd.shuffle(table)
        else:
            r = rows[a % len(rows)]
            row = table.pop(r)
            table.insert(c % (len(table) + 1), row)
    elif kind == 9:
        name = "row-comment-out"
        r = rows[a % len(rows)]
        touched.add(table[r][0].strip())
        table[r][0] = rnd.choice(["#", "# ", " #"]) + table[r][0]
    elif kind == 10:
        name = "row-blank-key"
        r = rows[a % len(rows)]
        touched.add(table[r][0].strip())
        table[r][0] = rnd.choice(["", " ", "\t"])
    elif kind == 11:
        name = "row-key-decorate"
        r = rows[a % len(rows)]
        k = table[r][0]
        touched.add(k.strip())
        table[r][0] = rnd.choice([" " + k, k + " ", k.upper(), k.capitalize(), k + "\u00a0", "\ufeff" + k, k.replace("_", " ")])
    elif kind == 12:
        name = "column-duplicate-same-name"
        col_ = 1 + b % n
        for row in table:
            if row:
                while len(row) <= n:
                    row.append("")
                row.insert(1 + c % (n + 1), row[col_])
        touched.add("name")
    elif kind == 13:
        name = "column-duplicate-renamed"
        col_ = 1 + b % n
        for row in table:
            if row:
                while len(row) <= n:
                    row.append("")
                row.append(row[col_] + ("_copy%d" % (c % 3) if row[0].strip() == "name" else ""))
    elif kind == 14:
        name = "column-delete"
        col_ = 1 + b % n
        for row in table:
            if len(row) > col_:
                del row[col_]
    elif kind == 15:
        name = "column-blank"
        col_ = 1 + b % n
        for row in table:
            if len(row) > col_ and (a % 3 or row[0].strip() != "name"):
                row[col_] = rnd.choice(["", "", " "])
    elif kind == 16:
        name = "name-edit"
        rn = find_row(table, "name")
        col_ = 1 + b % n
        if rn is None:
            table.insert(0, ["name"] + ["n%d" % i for i in range(n)])
        else:
            others = [x for x in table[rn][1:] if x.strip()]
            choice = [rnd.choice(others) if others else "x", "", " ", "column_B", "column_C", "column_%s" % "ABCDE"[col_ % 5],
                      " " + (others[0] if others else "x") + " ", "éè", "a,b", "#x"]
            set_cell(table, rn, col_, choice[c % len(choice)])
        touched.add("name")
    elif kind == 17:
        name = "ragged-row"
        r = rows[a % len(rows)]
        touched.add(table[r][0].strip())
        if b % 2:
            del table[r][1 + c % max(len(table[r]) - 1, 1):]
        else:
            table[r].extend([PAYLOADS[(c + i) % len(PAYLOADS)] for i in range(1 + b % 3)])
    elif kind == 18:
        name = "valid-column-added"
        column = {}
        for key in ROW_ORDER:
            column[key] = valid_value(rnd, key, column)
        column["name"] = "added%d" % (c % 3)
        for row in table:
            if row and row[0].strip() in column:
                while len(row) <= n:
                    row.append("")
                row.append(column[row[0].strip()])
    elif kind == 19:
        # an explicit name that equals the name another, unnamed, column gets automatically ("column_" + spreadsheet
        # letter): the two configurations would share one key
        name = "name-collides-with-generated-name"
        rn = find_row(table, "name")
        if rn is None:
            table.insert(0, ["name"] + ["n%d" % i for i in range(n)])
            rn = 0
        if n >= 2:
            j = a % n
            i = (j + 1 + b % (n - 1)) % n
            set_cell(table, rn, 1 + j, rnd.choice(["", "", " "]))
            set_cell(table, rn, 1 + i, "column_" + "BCDEFGHIJKLMNOPQRSTUVWXYZ"[j % 25])
        touched.add("name")
    else:
        if c % 8 == 0:  # a cell above the csv module's field limit (131072 characters)
            name = "oversize-cell"
            r = rows[a % len(rows)]
            set_cell(table, r, 1 + b % n, "9" * (131073 + c % 50))
            touched.add(table[r][0].strip())
        else:
            name = "blank-rows"
            for _ in range(1 + a % 3):
                table.insert(rnd.randint(0, len(table)), rnd.choice([[], [""], [""] * (n + 1), ["#"], [" ", "x"]]))
    ops_used.append(name)


def render(table, style, newline, bom, final_newline):
    """Own CSV writer. style 0: quote when needed; 1: quote everything; 2: quote at random (seeded by content length)."""
    lines = []
    for ri, row in enumerate(table):
        cells = []
        for ci, cell in enumerate(row):
            if cell.startswith("\ue000"):
                cells.append(cell[1:])  # raw: lets unbalanced quotes through
                continue
            need = any(ch in cell for ch in ',"\n\r')
            if need or style == 1 or (style == 2 and (ri * 7 + ci * 3 + len(cell)) % 3 == 0):
                cells.append('"' + cell.replace('"', '""') + '"')
            else:
                cells.append(cell)
        lines.append(",".join(cells))
    text = newline.join(lines)
    if final_newline and lines:
        text += newline
    if bom:
        text = "\ufeff" + text
    return text


FRAGMENTS = PAYLOADS[:-1] + ROW_ORDER + UNKNOWN_KEYS + ["hd1080p_50", "unconstrained", "le_gall_5_3", "pictures_are_frames",
                                                       "progressive", "tv_gamma", "1296000", "24", "8", "4"]


def build_text(p):
    """(text, touched row keys, operator names, base label) from drawn parameters; deterministic in p."""
    rnd = random.Random(p["seed"])
    touched, ops_used = set(), []
    if p["family"] == "random":
        nrows = p["seed"] % 41
        width = 1 + (p["seed"] // 41) % 5
        table = []
        for _ in range(nrows):
            key = rnd.choice(ROW_ORDER if rnd.random() < 0.8 else FRAGMENTS)
            table.append([key] + [rnd.choice(FRAGMENTS) for _ in range(rnd.randint(0, width))])
        base = "random"
    else:
        b = p["base"]
        if b < 2:
            table = [list(r) for r in bases()[b]]
            base = ("tests-sample", "docs-sample")[b]
            # keep a drawn subset of the four sample columns so that most texts are small
            keep = p["seed"] % 15 + 1
            for row in table:
                row[1:] = [cell for i, cell in enumerate(row[1:]) if (keep >> i) & 1 or i >= 4]
        else:
            table = synth_table(rnd, 1 + p["seed"] % 4)
            base = "synthesised"
        for op in p["ops"]:
            apply_op(table, op, touched, ops_used)
    text = render(table, p["style"], ("\n", "\r\n", "\r")[p["newline"]], p["bom"], p["final_newline"])
    return text, touched, ops_used, base


_op = st.tuples(st.integers(0, N_OPS - 1), st.integers(0, 60), st.integers(0, 60), st.integers(0, 400))
case_params = st.fixed_dictionaries({
    "family": st.sampled_from(["mutated"] * 5 + ["random"]),
    "base": st.sampled_from([0, 1, 2, 2]),
    "seed": st.integers(0, 1 << 40),
    "ops": st.lists(_op, min_size=0, max_size=4),
    "style": st.sampled_from([0, 0, 0, 1, 2]),
    "newline": st.sampled_from([0, 0, 1, 2]),
    "bom": st.sampled_from([False, False, False, True]),
    "final_newline": st.sampled_from([True, True, True, False]),
})


def shards(tier):
    return [("hyp", k) for k in range(16)]


def run_shard(spec, ctx):
    tmp = tempfile.mkdtemp(prefix="vpbt-c28-", dir="/tmp")
    try:
        seen = [0]

        def body(p, col):
            seen[0] += 1
            text, touched, ops_used, base = build_text(p)
            data = {"text": text, "operators": ops_used, "base": base}
            outcome, nontrivial, detail = check_text(text, col, tmp, data=data, touched=touched)
            labels = ["base:" + base, "outcome:" + outcome, "operators:%d" % len(ops_used),
                      "newline:" + ("LF", "CRLF", "CR")[p["newline"]]]
            labels += ["op:" + o for o in sorted(set(ops_used))]
            if p["bom"]:
                labels.append("bom")
            col.case(key=hash64(text), nontrivial=nontrivial, labels=labels,
                     sample=(lambda: {"text": text if len(text) < 1500 else text[:1500] + "...(%d chars)" % len(text),
                                      "operators": ops_used, "base": base, "outcome": outcome, "detail": detail})
                     if seen[0] > 30 and seen[0] % 11 == 0 else None)

        run_given(case_params, body, ctx, ctx.pick(1600, 150000))
    finally:
        shutil.rmtree(tmp, ignore_errors=True)


def replay(data, col):
    # data: {"text": str} or, for long repetitive texts, {"text_parts": [[string, repeat count], ...]}
    text = data["text"] if "text" in data else "".join(s * int(n) for s, n in data["text_parts"])
    tmp = tempfile.mkdtemp(prefix="vpbt-c28-replay-", dir="/tmp")
    try:
        check_text(text, col, tmp, data=data)
        col.evaluations += 1
    finally:
        shutil.rmtree(tmp, ignore_errors=True)
