"""C25 — validator command reports verdicts and decoded pictures faithfully."""

import contextlib
import io
import os
import re
import shutil
import tempfile

from hypothesis import strategies as st

from vpbt.core import run_given
from vpbt.gen import mutate as M
from vpbt.gen import streams as S

ID = "C25"
LEVEL = "exploration"
RULE = (
    "Inputs: the 34 valid corpus streams (2 pictures each; encoder output for many configurations incl. fragments, fields, two "
    "sequences, padding units) and their byte-, bit-field-, field- and unit-level mutations (C02 generator), written to a file in "
    "a scratch directory; output patterns picture_%d.raw, %03d.raw, x%d.json, nested directory prefixes, directory names containing dots, patterns without extension and dot-files; with/without --no-status "
    "and -v. Oracle: vc2_bitstream_validator.main() in-process vs a direct parse_stream of the same bytes: conformant -> exit 0 "
    "and exactly N .raw/.json pairs numbered 0..N-1 whose file_format.read() equals the N pictures, video parameters and coding "
    "modes the decoder callback produced, in order; non-conformant -> exit 2, stdout has 'Conformance error at bit offset <int>' "
    "with <int> equal to the error's own offending offset (else the decoder's read position), and the Details / Suggested bitstream viewer commands / Pseudocode traceback sections; never exit 3, never an escaping "
    "exception. Non-trivial = exit 0 with >= 2 pictures compared, or exit 2 after >= 1 picture had been written; distinct by "
    "(bytes, options) hash."
)
ASSUMPTIONS = ["Size guard bounds as C02 (out-of-scope streams are counted, not judged).",
               "The reference verdict is the repository's own parse_stream run directly by the harness (C01/C02/C03 judge that verdict)."]

PATTERNS = ["picture_%d.raw", "%03d.raw", "x%d.json", "sub/dir/p%d.raw", "pic%d", "run.1/picture_%d", "v1.2/a.b/frame_%d.raw",
            ".hidden_%d", "dir.d/.p%d.x"]


@st.composite
def cases(draw):
    data, meta = draw(M.mutated_streams())
    # more weight on valid streams than the plain mutation generator gives
    if draw(st.integers(0, 3)) == 0:
        from vpbt.gen import corpus as C

        e = C.corpus()[draw(st.integers(0, len(C.corpus()) - 1))]
        data, meta = e["data"], {"base": e["name"], "mode": "valid", "ops": []}
    pattern = draw(st.sampled_from(PATTERNS))
    flags = [f for f in ("--no-status", "-v") if draw(st.booleans())]
    return data, meta, pattern, flags


def run_cli(data, pattern, flags, col):
    import importlib

    V = importlib.import_module("vc2_conformance.scripts.vc2_bitstream_validator")
    from vc2_conformance import file_format

    rec = {"hex": data.hex(), "pattern": pattern, "flags": flags}
    # reference verdict
    try:
        ref = S.validate(data, guard=True)
    except Exception as e:
        ref = None  # validator crash: C02's subject; the CLI must then report... exit 3, which is a C25 violation
    if ref is not None and ref.out_of_scope is not None:
        return "out_of_scope", False
    d = tempfile.mkdtemp(prefix="vpbt-c25-", dir="/tmp")
    try:
        path = os.path.join(d, "in.vc2")
        with open(path, "wb") as f:
            f.write(data)
        outpat = os.path.join(d, "out", pattern)
        os.makedirs(os.path.dirname(outpat), exist_ok=True)
        out, err = io.StringIO(), io.StringIO()
        S.VGUARD_TRIPPED[0] = None
        try:
            with S.size_guard(), contextlib.redirect_stdout(out), contextlib.redirect_stderr(err):
                code = V.main([path, "--output", outpat] + flags)
        except BaseException as e:
            col.fail(col.crash_bucket(e, "escaped"), rec, "exception escaped validator main(): %s: %s" % (type(e).__name__, str(e)[:300]))
            return "escaped", True
        if S.VGUARD_TRIPPED[0]:
            return "out_of_scope", False
        text = out.getvalue()
        if code == 3 or code not in (0, 2):
            m = re.search(r"internal error in bitstream validator: (\w+)", err.getvalue())
            col.fail("exit-%r:%s" % (code, m.group(1) if m else "?"), rec,
                     "validator command exited with status %r: %s" % (code, err.getvalue().strip()[-300:]))
            return "exit_%r" % code, True
        if ref is None:
            col.fail("cli-hid-crash", rec, "direct parse_stream crashed but the command exited %r" % code)
            return "exit_%r" % code, True
        # files written
        written = []
        for root, _, files in os.walk(os.path.join(d, "out")):
            for name in files:
                written.append(os.path.relpath(os.path.join(root, name), os.path.join(d, "out")))
        npics = len(ref.pictures)
        base = os.path.splitext(pattern)[0]
        expected = set()
        for i in range(npics):
            expected.add(base % (i,) + ".raw")
            expected.add(base % (i,) + ".json")
        if ref.error is None:
            if code != 0:
                col.fail("conformant-but-exit-%r" % code, rec, "stream accepted by parse_stream but command exited %r" % code)
                return "exit_%r" % code, True
            if set(written) != expected:
                col.fail("wrong-files", rec, "expected files %r, found %r" % (sorted(expected), sorted(written)))
                return "exit_0", True
            for i, (pic, vp, pcm) in enumerate(ref.pictures):
                try:
                    rp, rvp, rpcm = file_format.read(os.path.join(d, "out", base % (i,) + ".raw"))
                except Exception as e:
                    col.fail(col.crash_bucket(e, "readback"), rec, "reading back picture %d raised %s: %s" % (i, type(e).__name__, e))
                    return "exit_0", True
                if dict(rvp) != dict(vp) or rpcm != pcm:
                    col.fail("metadata-differs", rec, "picture file %d metadata differs from the decoder's output" % i)
                    return "exit_0", True
                for comp in ("Y", "C1", "C2"):
                    if [list(r) for r in rp[comp]] != [list(r) for r in pic[comp]]:
                        col.fail("samples-differ", rec, "picture file %d component %s differs from the decoder's output" % (i, comp))
                        return "exit_0", True
                if rp["pic_num"] != pic["pic_num"]:
                    col.fail("picnum-differs", rec, "picture file %d has pic_num %r, decoder gave %r" % (i, rp["pic_num"], pic["pic_num"]))
                    return "exit_0", True
            return "exit_0", npics >= 2
        else:
            if code != 2:
                col.fail("nonconformant-but-exit-%r" % code, rec, "parse_stream raised %s but command exited %r" % (type(ref.error).__name__, code))
                return "exit_%r" % code, True
            m = re.search(r"Conformance error at bit offset (\d+)\n=+\n", text)
            if not m:
                col.fail("no-located-title", rec, "stdout lacks 'Conformance error at bit offset <int>'")
            else:
                # the location must be the one the error itself names, else the decoder's read position
                from vc2_conformance.bitstream.io import to_bit_offset
                from vc2_conformance.decoder import tell

                want = ref.error.offending_offset()
                if want is None:
                    want = to_bit_offset(*tell(ref.state))
                if int(m.group(1)) != want:
                    col.fail("wrong-location", rec, "%s reported at bit offset %s, the error is located at %d" % (
                        type(ref.error).__name__, m.group(1), want))
            for section in ("Details\n-------", "Suggested bitstream viewer commands\n---", "Pseudocode traceback\n---"):
                if section not in text:
                    col.fail("missing-section", rec, "stdout lacks section %r" % section.split("\n")[0])
            if set(written) != expected:
                col.fail("wrong-files-before-error", rec, "expected files %r for the %d pictures decoded before the error, found %r"
                         % (sorted(expected), npics, sorted(written)))
            return "exit_2", npics >= 1
    finally:
        shutil.rmtree(d, ignore_errors=True)


def body(case, col):
    data, meta, pattern, flags = case
    outcome, nt = run_cli(data, pattern, flags, col)
    col.case(key=(data, pattern, tuple(flags)), nontrivial=nt,
             labels=("mode:" + meta["mode"], outcome, "pattern:" + pattern),
             sample=lambda: {"base": meta["base"], "mode": meta["mode"], "ops": meta["ops"], "pattern": pattern, "flags": flags,
                             "outcome": outcome, "bytes": len(data)})


def shards(tier):
    return list(range(16 if tier == "quick" else 64))


def run_shard(spec, ctx):
    run_given(cases(), body, ctx, ctx.pick(190, 1500))


def replay(data, col):
    blob = bytes.fromhex(data["hex"])
    outcome, nt = run_cli(blob, data.get("pattern", "picture_%d.raw"), data.get("flags", []), col)
    col.case(key=blob, nontrivial=nt, labels=(outcome,))
