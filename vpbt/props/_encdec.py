"""Shared body of C03 / C04: encode -> serialise -> validate -> compare."""

from hypothesis import strategies as st

from vc2_data_tables import PictureCodingModes

from vpbt.gen import configs as G
from vpbt.gen import pictures as P
from vpbt.gen import streams as S


@st.composite
def cases(draw, thorough=False, **cf_kwargs):
    kw = dict(max_size=24 if not thorough else 40, max_depth_bits=16 if not thorough else 32,
              max_dwt=3 if not thorough else 4, max_dwt_ho=2 if not thorough else 3)
    kw.update(cf_kwargs)
    cf = draw(G.codec_features(**kw))
    fields = cf["picture_coding_mode"] == PictureCodingModes.pictures_are_fields
    specs = draw(P.picture_specs(1, 3, even=fields))
    nums = draw(P.picture_numbers(len(specs), fields))
    return cf, specs, nums


BOUNDARY_BYTES = [254, 255, 256, 257, 510, 511, 512, 513, 765, 766, 767, 768, 769, 1020, 1021, 1023, 1024, 1025]


@st.composite
def boundary_cases(draw):
    """Lossless HQ, no transform, one or two slices: the luma slice data is placed exactly on / next to the
    255-byte length-field boundaries (k*255, k*256) where slice_size_scaler decisions change."""
    from vc2_data_tables import Profiles

    cf = draw(G.codec_features(profile=Profiles.high_quality, lossless=True, max_size=8, max_dwt=0, max_dwt_ho=0,
                               max_depth_bits=10, max_slices=1, fragments=False, simple_vp=True,
                               pcm=PictureCodingModes.pictures_are_frames))
    target = draw(st.sampled_from(BOUNDARY_BYTES))
    n = 2 * target + draw(st.sampled_from([0, 0, -1, 1]))
    side = 8
    while side * side < 2 * n + 8:
        side += 8
    vp = cf["video_parameters"]
    vp["frame_width"], vp["frame_height"] = side, side
    vp["clean_width"], vp["clean_height"], vp["left_offset"], vp["top_offset"] = side, side, 0, 0
    vp["color_diff_format_index"] = G.C444
    if min(G.depths(vp)) < 2:
        vp["luma_excursion"], vp["color_diff_excursion"] = 255, 255
    cf["dwt_depth"], cf["dwt_depth_ho"] = 0, 0
    cf["wavelet_index_ho"] = cf["wavelet_index"]
    cf["quantization_matrix"] = None if (cf["wavelet_index"], cf["wavelet_index"], 0, 0) in __import__("vc2_data_tables").QUANTISATION_MATRICES else {0: {"LL": 0}}
    cf["slices_x"] = draw(st.sampled_from([1, 1, 2]))
    cf["slices_y"] = 1
    comp = draw(st.sampled_from(["Y", "C1", "C2"]))
    kinds = ["constmid", "constmid", "constmid"]
    kinds[["Y", "C1", "C2"].index(comp)] = "ones:%d" % (n * cf["slices_x"])
    specs = [(kinds[0], kinds[1], kinds[2], draw(st.integers(0, 1000)))]
    return cf, specs, None


def case_json(cf, specs, nums):
    return {"config": G.config_json(cf), "specs": [list(s) for s in specs], "pic_nums": nums}


def case_from_json(d):
    cf = G.config_from_json(d["config"])
    specs = [tuple(s) for s in d["specs"]]
    return cf, specs, d["pic_nums"]


def representable_budget(cf, pictures):
    """DESIGN C03: is there, for every slice, a qindex fitting the slice budget that the qindex field
    can hold?  Computed with the harness' own size model (C14)."""
    from vpbt.oracles import sizes

    return sizes.budget_representable(cf, pictures)


def run_case(cf, specs, nums, col, check_format=True, check_exact=False):
    """Returns a dict of facts about the case, records failures into col."""
    from vc2_conformance.encoder.exceptions import UnsatisfiableCodecFeaturesError
    from vc2_conformance.bitstream.exceptions import OutOfRangeError

    data = case_json(cf, specs, nums)
    pictures = P.build_pictures(cf, specs, nums)
    facts = {"rejected": False, "all_q0": False, "unrepresentable": False}
    from vpbt.core import CpuTimeout, cpu_limit

    try:
        # once a non-terminating call has been recorded, later ones are cut short (the shard must still finish)
        with cpu_limit(120 if "encoder-no-result-within-120s-cpu" not in col.failures else 5):
            blob, seq = S.encode(cf, pictures)
    except CpuTimeout:
        col.fail("encoder-no-result-within-120s-cpu", data, "make_sequence/serialisation did not finish within 120 s of CPU time")
        return facts
    except UnsatisfiableCodecFeaturesError as e:
        facts["rejected"] = type(e).__name__
        return facts
    except OutOfRangeError as e:
        if not cf["lossless"] and not representable_budget(cf, pictures):
            facts["unrepresentable"] = True
            return facts
        col.fail(col.crash_bucket(e, "encode"), data, "encode/serialise raised %s: %s" % (type(e).__name__, e))
        return facts
    except Exception as e:
        col.fail(col.crash_bucket(e, "encode"), data, "encode/serialise raised %s: %s" % (type(e).__name__, e))
        return facts
    try:
        v = S.validate(blob)
    except Exception as e:
        col.fail(col.crash_bucket(e, "validate"), data, "validator raised %s: %s" % (type(e).__name__, e))
        return facts
    if v.error is not None:
        col.fail("nonconformant:" + type(v.error).__name__, data,
                 "encoder output rejected: %s: %s" % (type(v.error).__name__, v.error.explain().strip()[:300]))
        return facts
    facts["bytes"] = len(blob)
    qs = [s["qindex"] for _, _, s in S.iter_slices(seq)]
    facts["all_q0"] = all(q == 0 for q in qs)
    facts["max_q"] = max(qs) if qs else 0
    if check_format:
        if len(v.pictures) != len(pictures):
            col.fail("picture-count", data, "%d pictures in, %d decoded" % (len(pictures), len(v.pictures)))
            return facts
        want_vp = dict(cf["video_parameters"])
        for i, (pic, vp, pcm) in enumerate(v.pictures):
            if vp != want_vp:
                diff = {k: (want_vp.get(k), vp.get(k)) for k in set(want_vp) | set(vp) if want_vp.get(k) != vp.get(k)}
                col.fail("video-parameters", data, "decoded video parameters differ: %r" % diff)
                break
            if len(vp) != 20:
                col.fail("video-parameters-keys", data, "expected 20 keys, got %d" % len(vp))
                break
            if pcm != cf["picture_coding_mode"]:
                col.fail("picture-coding-mode", data, "decoded coding mode %r" % pcm)
                break
            want_num = nums[i] if nums is not None else i
            if pic["pic_num"] != want_num:
                col.fail("picture-number", data, "picture %d decoded with number %r, expected %r" % (i, pic["pic_num"], want_num))
                break
    if check_exact and facts["all_q0"] and len(v.pictures) == len(pictures):
        for i, (pic, vp, pcm) in enumerate(v.pictures):
            for comp in ("Y", "C1", "C2"):
                if pic[comp] != pictures[i][comp]:
                    # locate first difference
                    where = None
                    for y, (ra, rb) in enumerate(zip(pic[comp], pictures[i][comp])):
                        if ra != rb:
                            x = [a != b for a, b in zip(ra, rb)].index(True) if len(ra) == len(rb) else -1
                            where = (x, y, rb[x] if x >= 0 else None, ra[x] if x >= 0 else None)
                            break
                    col.fail("inexact-reconstruction", data,
                             "picture %d component %s differs at (x,y,in,out)=%r although every slice has qindex 0" % (i, comp, where))
                    return facts
    return facts
