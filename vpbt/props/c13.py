"""C13 — slices tile every subband; subband sizes follow the padded picture;
the same-dimensions flag is exact; low-delay slice byte counts telescope."""

from collections import Counter
from fractions import Fraction
import math

from hypothesis import strategies as st

from vpbt.core import run_given
from vpbt.oracles.slice_geometry import (
    subband_sizes,
    check_tiling,
    coverage_counts,
)

ID = "C13"
LEVEL = "exploration"
RULE = (
    "Four parts. (1) Exhaustive 1-D box, separately for the horizontal and the vertical axis: component "
    "size 1..96 x dwt_depth 0..4 x dwt_depth_ho 0..4 x slice count 1..100 x every level 0..depth (thorough: "
    "size 1..200, slices 1..160); the component (Y/C1/C2) rotates with the case and the other component, the "
    "other axis and the other slice count are given different values so that a mix-up is visible. One "
    "evaluation = one (axis, size, depths, slice count, level): subband_width/height compared with the "
    "harness model (pad up to a multiple of 2^(depth) per axis, halve once per transform level, "
    "horizontal-only levels halve the width only, level 0 = size of level 1, level depth+1 = padded picture as "
    "dwt_pad_addition requests it) and the slice_left/right (slice_top/bottom) ranges checked by interval "
    "arithmetic: first starts at 0, each starts where the previous ended, start <= end, last ends at the "
    "model's subband extent. Non-trivial = at least 2 slices and the slice count does not divide the subband "
    "extent (includes more slices than coefficients); distinct counted conservatively per configuration (axis, "
    "size, depths, slices) having at least one such level, not per level. "
    "(2) Drawn geometry: Hypothesis draws sizes up to 2^40 and slice counts up to 2048, same check, same rule, "
    "distinct by the full state. (3) Same-dimensions flag: Hypothesis builds full 2-D states (DC-band sizes "
    "1..24 times the transform scale minus a pad; chroma derived as 4:4:4 / 4:2:2 / 4:2:0, floor-halved odd "
    "luma, or independent; slice counts free 1..32 or drawn among the divisors of the luma / chroma DC size); "
    "all three components and all levels are tiled as in (1) (plus a literal per-index coverage count when "
    "the extent is <= 512) and the flag must equal 'every slice has the same (width,height) in every "
    "component and level' as observed from the slice bounds; non-trivial = more than one slice; distinct by "
    "state. (4) slice_bytes: exhaustive slices_x*slices_y <= 40 x numerator 0..200 x denominator 1..60 "
    "(thorough 48 / 256 / 64) and drawn numerator/denominator up to 2^200 with up to 48x48 slices: every "
    "value a non-negative int, sum over the picture == floor(slices*num/den); for slice counts up to 2^32 "
    "only non-negativity of drawn slices; non-trivial = at least 2 slices and denominator does not divide "
    "numerator; distinct by (slices_x*slices_y, numerator, denominator) in the box (all factorisations of a slice "
    "count are evaluated but counted once) and by (slices_x, slices_y, numerator, denominator) when drawn."
)
ASSUMPTIONS = [
    "Component sizes and slice counts are >= 1, transform depths 0..4 per dimension (documented limit of the "
    "software), slice_bytes denominator >= 1 and numerator >= 0 (stream fields are unsigned; a zero "
    "denominator is rejected before slice_bytes is reached).",
    "'All slices have the same dimensions' is read as: within every component and level all slices have "
    "identical (width, height). Because the last slice of an uneven split is always strictly larger than "
    "the first, this coincides with 'all slices hold the same number of coefficients' (the wording in "
    "level_constraints.py); the run counts cases where the two readings would differ (label "
    "flag_readings_differ, expected 0).",
    "The expected flag is derived from the slice bounds the repository functions return (which are "
    "separately proven to tile the harness model's subband sizes), not from the repository's flag formula.",
]

COMPS = ("Y", "C1", "C2")
MAX_DEPTH = 4
TAG_BOX = 1 << 60
TAG_BYTES = 1 << 61


def EXHAUSTIVE(tier):
    # the run mixes an exhaustive box with drawn parts; the box is described in coverage.exhaustive_box
    return False


def box_limits(tier):
    return (200, 160) if tier == "thorough" else (96, 100)


def bytes_limits(tier):
    return (48, 256, 64) if tier == "thorough" else (40, 200, 60)


def shards(tier):
    out = []
    for axis in ("w", "h"):
        out += [("box", axis, k, 16) for k in range(16)]
    out += [("bytes_box", k, 8) for k in range(8)]
    if tier == "thorough":
        # (kind, index, examples per shard)
        out += [("flag", k, 60000) for k in range(16)]
        out += [("drawn", k, 40000) for k in range(16)]
        out += [("bytes_hyp", k, 40000) for k in range(16)]
    else:
        out += [("flag", k, 1200) for k in range(8)]
        out += [("drawn", k, 1500) for k in range(4)]
        out += [("bytes_hyp", k, 1500) for k in range(4)]
    return out


# ---------------------------------------------------------------------------
# checks shared by generation and replay


def comp_size(state, comp):
    if comp == "Y":
        return state["luma_width"], state["luma_height"]
    return state["color_diff_width"], state["color_diff_height"]


def check_geometry(S, state, comp, axis, col, data, literal_limit=0):
    """Subband sizes of every level (incl. the padded picture) against the model and the
    tiling of one axis.  Returns [(level, extent, bounds)] or None after a crash."""
    d = state["dwt_depth"]
    dho = state["dwt_depth_ho"]
    w, h = comp_size(state, comp)
    model = subband_sizes(w, h, d, dho)
    top = d + dho
    if axis == "w":
        lo, hi, n = S.slice_left, S.slice_right, state["slices_x"]
    else:
        lo, hi, n = S.slice_top, S.slice_bottom, state["slices_y"]
    out = []
    try:
        for level in range(top + 2):
            mw, mh = model[level]
            iw = S.subband_width(state, level, comp)
            ih = S.subband_height(state, level, comp)
            if iw != mw or type(iw) is not int:
                col.fail("subband-width", data,
                         "subband_width(level=%d, %s)=%r, padded-size halving gives %d (component %dx%d, "
                         "dwt_depth=%d, dwt_depth_ho=%d)" % (level, comp, iw, mw, w, h, d, dho))
            if ih != mh or type(ih) is not int:
                col.fail("subband-height", data,
                         "subband_height(level=%d, %s)=%r, padded-size halving gives %d (component %dx%d, "
                         "dwt_depth=%d, dwt_depth_ho=%d)" % (level, comp, ih, mh, w, h, d, dho))
            if level > top:
                break
            extent = mw if axis == "w" else mh
            bounds = [(lo(state, i, comp, level), hi(state, i, comp, level)) for i in range(n)]
            for a, b in bounds:
                if type(a) is not int or type(b) is not int:
                    col.fail("bound-not-int", data, "slice bound %r/%r is not an int (level %d, %s, axis %s)"
                             % (a, b, level, comp, axis))
                    return None
            bad = check_tiling(bounds, extent)
            if bad is not None:
                col.fail("tiling-%s-%s" % (axis, bad[0]), data,
                         "axis %s component %s level %d, %d slices over extent %d: %s; bounds=%r"
                         % (axis, comp, level, n, extent, bad[1], bounds[:12]))
            elif extent <= literal_limit:
                cover, outside = coverage_counts(bounds, extent)
                if outside or any(c != 1 for c in cover):
                    col.fail("coverage-%s" % axis, data,
                             "axis %s component %s level %d: per-index coverage %r, %d outside"
                             % (axis, comp, level, cover[:40], outside))
            out.append((level, extent, bounds))
    except Exception as e:  # no exception is documented for in-domain geometry
        col.fail(col.crash_bucket(e), data, "%s: %s" % (type(e).__name__, e))
        return None
    return out


def geom_state(axis, dim, d, dho, n, comp):
    """State for a 1-D case: everything that is NOT under test gets a different value."""
    other = dim + 5
    cross = (dim * 7 + 3) % 61 + 1
    st_ = {"dwt_depth": d, "dwt_depth_ho": dho}
    if axis == "w":
        st_["luma_width"], st_["color_diff_width"] = (dim, other) if comp == "Y" else (other, dim)
        st_["luma_height"], st_["color_diff_height"] = cross, cross + 2
        st_["slices_x"], st_["slices_y"] = n, n + 1
    else:
        st_["luma_height"], st_["color_diff_height"] = (dim, other) if comp == "Y" else (other, dim)
        st_["luma_width"], st_["color_diff_width"] = cross, cross + 2
        st_["slices_y"], st_["slices_x"] = n, n + 1
    return st_


def check_flag_state(S, state, col, data, labels=None):
    """All components/levels tiled + the flag. Returns (expected, got) or None after a crash."""
    all_same = True
    per = {}
    for comp in COMPS:
        rx = check_geometry(S, state, comp, "w", col, data, literal_limit=512)
        ry = check_geometry(S, state, comp, "h", col, data, literal_limit=512)
        if rx is None or ry is None:
            return None
        for (level, _, bx), (_, _, by) in zip(rx, ry):
            ws = [b - a for a, b in bx]
            hs = [b - a for a, b in by]
            per[(comp, level)] = (ws, hs)
            if len(set(ws)) != 1 or len(set(hs)) != 1:
                all_same = False
    try:
        got = S.slices_have_same_dimensions(state)
    except Exception as e:
        col.fail(col.crash_bucket(e), data, "%s: %s" % (type(e).__name__, e))
        return None
    if bool(got) != all_same:
        uneven = sorted("%s/level%d" % k for k, (ws, hs) in per.items()
                        if len(set(ws)) != 1 or len(set(hs)) != 1)
        col.fail("flag-true-but-uneven" if got else "flag-false-but-even", data,
                 "slices_have_same_dimensions=%r but slices %s (uneven in: %s); state=%r"
                 % (got, "all have equal dimensions" if all_same else "differ", ", ".join(uneven[:6]), state))
    if labels is not None:
        labels["flag_expected_true" if all_same else "flag_expected_false"] += 1
        luma_even = all(len(set(ws)) == 1 and len(set(hs)) == 1
                        for (c, _), (ws, hs) in per.items() if c == "Y")
        chroma_even = all(len(set(ws)) == 1 and len(set(hs)) == 1
                          for (c, _), (ws, hs) in per.items() if c != "Y")
        if luma_even and not chroma_even:
            labels["flag_only_chroma_uneven"] += 1
        if chroma_even and not luma_even:
            labels["flag_only_luma_uneven"] += 1
        # the other reading (same number of coefficients per slice) - expected to coincide
        nx, ny = state["slices_x"], state["slices_y"]
        if nx * ny <= 64:
            dho = state["dwt_depth_ho"]
            totals = set()
            for sy in range(ny):
                for sx in range(nx):
                    t = 0
                    for (c, level), (ws, hs) in per.items():
                        t += ws[sx] * hs[sy] * (3 if level > dho else 1)
                    totals.add(t)
            if (len(totals) == 1) != all_same:
                labels["flag_readings_differ"] += 1
    return all_same, got


def check_slice_bytes(S, state, col, data):
    nx, ny = state["slices_x"], state["slices_y"]
    num, den = state["slice_bytes_numerator"], state["slice_bytes_denominator"]
    total = 0
    try:
        for sy in range(ny):
            for sx in range(nx):
                b = S.slice_bytes(state, sx, sy)
                if type(b) is not int:
                    col.fail("slice-bytes-not-int", data, "slice_bytes(%d,%d)=%r" % (sx, sy, b))
                    return
                if b < 0:
                    col.fail("slice-bytes-negative", data,
                             "slice_bytes(sx=%d, sy=%d)=%d with %dx%d slices, %d/%d" % (sx, sy, b, nx, ny, num, den))
                total += b
    except Exception as e:
        col.fail(col.crash_bucket(e), data, "%s: %s" % (type(e).__name__, e))
        return
    expect = math.floor(Fraction(nx * ny * num, den))
    if total != expect:
        col.fail("slice-bytes-sum", data,
                 "sum of slice_bytes over %dx%d slices = %d, floor(%d*%d/%d) = %d"
                 % (nx, ny, total, nx * ny, num, den, expect))


def check_slice_bytes_points(S, state, points, col, data):
    try:
        for sx, sy in points:
            b = S.slice_bytes(state, sx, sy)
            if type(b) is not int or b < 0:
                col.fail("slice-bytes-negative", data, "slice_bytes(sx=%d, sy=%d)=%r; state=%r" % (sx, sy, b, state))
    except Exception as e:
        col.fail(col.crash_bucket(e), data, "%s: %s" % (type(e).__name__, e))


# ---------------------------------------------------------------------------
# strategies


def divisors(n):
    return [k for k in range(1, n + 1) if n % k == 0]


def build_flag_state(d, dho, mode, dcw, dch, padx, pady, cw_free, ch_free, kx, ky, ix, iy, nx_free, ny_free):
    scale_w = 2 ** (d + dho)
    scale_h = 2 ** d
    w = dcw * scale_w - (padx % scale_w)
    h = dch * scale_h - (pady % scale_h)
    if mode in ("422", "420"):
        w += w % 2
    if mode == "420":
        h += h % 2
    if mode == "odd_floor":
        w = max(w, 2)
        h = max(h, 2)
    if mode == "444":
        cw, ch = w, h
    elif mode == "422":
        cw, ch = w // 2, h
    elif mode == "420":
        cw, ch = w // 2, h // 2
    elif mode == "odd_floor":
        cw, ch = w // 2, h // 2
    else:
        cw, ch = cw_free, ch_free
    luma_dc = subband_sizes(w, h, d, dho)[0]
    chroma_dc = subband_sizes(cw, ch, d, dho)[0]

    def pick(kind, index, free, luma_extent, chroma_extent):
        if kind == "div_luma":
            ds = divisors(luma_extent)
            return ds[index % len(ds)]
        if kind == "div_chroma":
            ds = divisors(chroma_extent)
            return ds[index % len(ds)]
        return free

    state = {
        "luma_width": w, "luma_height": h, "color_diff_width": cw, "color_diff_height": ch,
        "dwt_depth": d, "dwt_depth_ho": dho,
        "slices_x": pick(kx, ix, nx_free, luma_dc[0], chroma_dc[0]),
        "slices_y": pick(ky, iy, ny_free, luma_dc[1], chroma_dc[1]),
    }
    return mode, kx, ky, state


def flag_strategy():
    depth = st.integers(0, MAX_DEPTH)
    kind = st.sampled_from(["div_luma", "div_luma", "div_chroma", "free"])
    return st.builds(
        build_flag_state,
        depth, depth,
        st.sampled_from(["444", "422", "420", "odd_floor", "independent"]),
        st.integers(1, 24), st.integers(1, 24),
        st.integers(0, 255), st.integers(0, 255),
        st.integers(1, 200), st.integers(1, 200),
        kind, kind,
        st.integers(0, 63), st.integers(0, 63),
        st.integers(1, 32), st.integers(1, 32),
    )


def drawn_geom_strategy():
    dim = st.one_of(st.integers(1, 300), st.integers(1, 1 << 16), st.integers(1, 1 << 40),
                    st.builds(lambda e, k, o: max(1, k * (1 << e) + o),
                              st.integers(0, 10), st.integers(1, 4096), st.integers(-2, 2)))
    n = st.one_of(st.integers(1, 64), st.integers(1, 2048))
    return st.tuples(st.sampled_from(["w", "h"]), dim, st.integers(0, MAX_DEPTH), st.integers(0, MAX_DEPTH),
                     n, st.sampled_from(COMPS))


def bytes_strategy():
    big = st.one_of(st.integers(0, 1 << 200), st.integers(0, 1 << 32), st.integers(0, 5000))
    bigpos = st.one_of(st.integers(1, 1 << 200), st.integers(1, 1 << 32), st.integers(1, 5000))
    full = st.builds(lambda nx, ny, num, den: ("bytes", {"slices_x": nx, "slices_y": ny,
                                                         "slice_bytes_numerator": num,
                                                         "slice_bytes_denominator": den}, None),
                     st.integers(1, 48), st.integers(1, 48), big, bigpos)
    # numerator just around a multiple of the denominator
    near = st.builds(lambda nx, ny, den, m, o: ("bytes", {"slices_x": nx, "slices_y": ny,
                                                          "slice_bytes_numerator": max(0, den * m + o),
                                                          "slice_bytes_denominator": den}, None),
                     st.integers(1, 48), st.integers(1, 48), bigpos, st.integers(0, 1 << 40), st.integers(-2, 2))

    def points(nx, ny, num, den, raw):
        pts = [[a % nx, b % ny] for a, b in raw] + [[0, 0], [nx - 1, ny - 1]]
        return ("bytes_points", {"slices_x": nx, "slices_y": ny, "slice_bytes_numerator": num,
                                 "slice_bytes_denominator": den}, pts)

    huge = st.builds(points, st.integers(1, 1 << 32), st.integers(1, 1 << 32), big, bigpos,
                     st.lists(st.tuples(st.integers(0, 1 << 32), st.integers(0, 1 << 32)), min_size=1, max_size=12))
    return st.one_of(full, near, huge)


# ---------------------------------------------------------------------------
# shards


def run_box(spec, ctx, S):
    _, axis, k, nsh = spec
    col = ctx.col
    max_dim, max_n = box_limits(ctx.tier)
    labels = Counter()
    sampled = False
    axis_bit = 0 if axis == "w" else 1
    for dim in range(1, max_dim + 1):
        if dim % nsh != k:
            continue
        for d in range(MAX_DEPTH + 1):
            for dho in range(MAX_DEPTH + 1):
                scale = 2 ** (d + dho) if axis == "w" else 2 ** d
                padded = dim % scale != 0
                for n in range(1, max_n + 1):
                    comp = COMPS[(dim + d + dho + n) % 3]
                    state = geom_state(axis, dim, d, dho, n, comp)
                    data = {"kind": "geom", "state": state, "comp": comp, "axis": axis}
                    res = check_geometry(S, state, comp, axis, col, data)
                    nlev = d + dho + 1
                    col.evaluations += nlev
                    labels["box_component_" + comp] += nlev
                    if padded:
                        labels["box_size_needs_padding"] += nlev
                    if res is None:
                        continue
                    for level, extent, bounds in res:
                        if level == 0:
                            labels["box_level_dc"] += 1
                        elif level <= dho:
                            labels["box_level_horizontal_only"] += 1
                        else:
                            labels["box_level_2d"] += 1
                        if n == 1:
                            labels["box_single_slice"] += 1
                        elif extent % n == 0:
                            labels["box_slices_divide_extent"] += 1
                        else:
                            labels["box_slices_do_not_divide_extent"] += 1
                            if n > extent:
                                labels["box_more_slices_than_coefficients"] += 1
                            # distinct per configuration (all its levels together), see RULE
                            col.nontrivial.add(TAG_BOX | (axis_bit << 40) | (dim << 28) | (d << 24)
                                               | (dho << 20) | (n << 8))
                            if (not sampled and k == 1 and d >= 1 and dho >= 1 and padded
                                    and 3 <= n <= 9 and level == dho + 1):
                                sampled = True
                                col.sample({"part": "box", "axis": axis, "component": comp, "state": state,
                                            "level": level, "subband_extent": extent, "slice_ranges": bounds})
    for key, v in labels.items():
        col.count(key, v)
    if k == 0:
        col.extra["exhaustive_box"] = (
            "1-D geometry box enumerated completely on both axes: size 1..%d x dwt_depth 0..4 x dwt_depth_ho 0..4 "
            "x slices 1..%d x all levels; slice_bytes box enumerated completely: slices_x*slices_y <= %d x "
            "numerator 0..%d x denominator 1..%d" % ((max_dim, max_n) + bytes_limits(ctx.tier)))


def run_bytes_box(spec, ctx, S):
    _, k, nsh = spec
    col = ctx.col
    max_slices, max_num, max_den = bytes_limits(ctx.tier)
    labels = Counter()
    sampled = False
    for den in range(1, max_den + 1):
        if den % nsh != k:
            continue
        for nx in range(1, max_slices + 1):
            for ny in range(1, max_slices // nx + 1):
                for num in range(0, max_num + 1):
                    state = {"slices_x": nx, "slices_y": ny, "slice_bytes_numerator": num,
                             "slice_bytes_denominator": den}
                    check_slice_bytes(S, state, col, {"kind": "bytes", "state": state})
                    col.evaluations += 1
                    if num % den != 0 and nx * ny >= 2:
                        labels["bytes_box_uneven_slice_sizes"] += 1
                        # distinct per (total slice count, numerator, denominator), see RULE
                        col.nontrivial.add(TAG_BYTES | ((nx * ny) << 32) | (num << 12) | den)
                        if not sampled and k == 3 and nx == 3 and ny == 2 and num > den:
                            sampled = True
                            col.sample({"part": "bytes_box", "state": state,
                                        "slice_bytes": [[S.slice_bytes(state, sx, sy) for sx in range(nx)]
                                                        for sy in range(ny)]})
                    elif nx * ny == 1:
                        labels["bytes_box_single_slice"] += 1
                    else:
                        labels["bytes_box_equal_slice_sizes"] += 1
                    if num < den:
                        labels["bytes_box_less_than_one_byte_per_slice"] += 1
    for key, v in labels.items():
        col.count(key, v)


def run_shard(spec, ctx):
    from vc2_conformance.pseudocode import slice_sizes as S

    col = ctx.col
    kind = spec[0]
    if kind == "box":
        run_box(spec, ctx, S)
    elif kind == "bytes_box":
        run_bytes_box(spec, ctx, S)
    elif kind == "flag":
        def body(case, col):
            mode, kx, ky, state = case
            data = {"kind": "flag", "state": state}
            local = Counter()
            res = check_flag_state(S, state, col, data, local)
            lab = ["flag_case", "flag_mode_" + mode, "flag_slices_x_" + kx, "flag_slices_y_" + ky]
            lab += list(local)
            if state["dwt_depth_ho"] > 0:
                lab.append("flag_asymmetric_depth")
            col.case(key=("flag", tuple(sorted(state.items()))),
                     nontrivial=state["slices_x"] * state["slices_y"] > 1, labels=lab,
                     sample=(lambda: {"part": "flag", "chroma_mode": mode, "state": state,
                                      "slices_all_same_dimensions": res[0] if res else None,
                                      "flag": res[1] if res else None}) if spec[1] < 3 and len(col.samples) < 1 else None)

        run_given(flag_strategy(), body, ctx, spec[2])
    elif kind == "drawn":
        def body(case, col):
            axis, dim, d, dho, n, comp = case
            state = geom_state(axis, dim, d, dho, n, comp)
            data = {"kind": "geom", "state": state, "comp": comp, "axis": axis}
            res = check_geometry(S, state, comp, axis, col, data, literal_limit=256)
            nontrivial = False
            lab = ["drawn_case", "drawn_size_over_2^16" if dim > (1 << 16) else "drawn_size_up_to_2^16"]
            if res:
                uneven = [lv for lv, extent, _ in res if n >= 2 and extent % n != 0]
                nontrivial = bool(uneven)
                lab.append("drawn_some_level_uneven" if uneven else "drawn_all_levels_even")
            col.case(key=("geom", axis, dim, d, dho, n, comp), nontrivial=nontrivial, labels=lab,
                     sample=(lambda: {"part": "drawn", "axis": axis, "component": comp, "state": state,
                                      "subband_extents": [e for _, e, _ in res]})
                     if spec[1] == 0 and len(col.samples) < 1 else None)

        run_given(drawn_geom_strategy(), body, ctx, spec[2])
    elif kind == "bytes_hyp":
        def body(case, col):
            what, state, pts = case
            nx, ny = state["slices_x"], state["slices_y"]
            num, den = state["slice_bytes_numerator"], state["slice_bytes_denominator"]
            if what == "bytes":
                check_slice_bytes(S, state, col, {"kind": "bytes", "state": state})
                lab = ["bytes_drawn_full_picture"]
            else:
                check_slice_bytes_points(S, state, pts, col, {"kind": "bytes_points", "state": state, "points": pts})
                lab = ["bytes_drawn_huge_slice_count_points_only"]
            lab.append("bytes_drawn_over_2^64" if max(num, den) >= (1 << 64) else "bytes_drawn_up_to_2^64")
            col.case(key=("bytes", nx, ny, num, den), nontrivial=(num % den != 0 and nx * ny >= 2), labels=lab,
                     sample=(lambda: {"part": "bytes_drawn", "kind": what, "state": state})
                     if spec[1] == 0 and len(col.samples) < 1 else None)

        run_given(bytes_strategy(), body, ctx, spec[2])
    else:
        raise ValueError(spec)


# ---------------------------------------------------------------------------


def _int_state(state):
    return {str(k): int(v) for k, v in state.items()}


def replay(data, col):
    from vc2_conformance.pseudocode import slice_sizes as S

    kind = data["kind"]
    state = _int_state(data["state"])
    col.evaluations += 1
    if kind == "geom":
        check_geometry(S, state, str(data["comp"]), str(data["axis"]), col, data, literal_limit=4096)
    elif kind == "flag":
        check_flag_state(S, state, col, data)
    elif kind == "bytes":
        check_slice_bytes(S, state, col, data)
    elif kind == "bytes_points":
        check_slice_bytes_points(S, state, [(int(a), int(b)) for a, b in data["points"]], col, data)
    else:
        raise ValueError("unknown replay kind %r" % (kind,))
