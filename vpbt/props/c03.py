"""C03 — encoder output is always a conformant stream in the requested format."""

from vpbt.core import run_given
from vpbt.gen import configs as G
from vpbt.props import _encdec as E

ID = "C03"
LEVEL = "exploration"
RULE = (
    "Hypothesis draws a valid CodecFeatures by construction (profile, lossless/lossy with picture_bytes from the "
    "minimum upward, all 7x7 wavelet pairs, dwt_depth 0-3(4), dwt_depth_ho 0-2(3), default/custom quantisation matrix, "
    "frame 1-24 (40) px incl. odd sizes, 4:4:4/4:2:2/4:2:0, both coding modes and scan formats, preset/custom signal "
    "ranges up to 16 (32) bits, frame rates, aspect ratios, clean areas, colour specs, slices 1-6 per axis, fragment "
    "sizes 0/1/k/total/more), 1-3 pictures of noise/constant/extreme/ramp/impulse content and a picture-number choice "
    "(omitted, 0, arbitrary start, wrap at 2^32); plus a boundary-directed stratum (lossless HQ, no transform, slice data of exactly 254..257, 510..513, 765..769, 1020..1025 bytes). Oracle: validator accepts; one callback per input picture in order with "
    "all 20 video parameters, coding mode and picture numbers as configured. Non-trivial = configuration with at least two of "
    "{asymmetric, fragments, 4:2:0, fields, depth>8, custom matrix, LD, slices>coeffs} that was encoded (not rejected by the "
    "encoder); distinct by configuration hash."
)
ASSUMPTIONS = [
    "Configurations are valid by construction (clean area inside frame, matrix values <= 12, depth <= 32): DESIGN section 7.1.",
    "A lossy case whose budget admits no qindex representable in the 7/8-bit field (harness size model) is out of domain (counted as unrepresentable_budget).",
]
NT = {"asymmetric", "fragments", "420", "fields", "depth>8", "custom_matrix", "LD", "slices>coeffs"}


def shards(tier):
    return list(range(16 if tier == "quick" else 64))


def body(case, col):
    cf, specs, nums = case
    facts = E.run_case(cf, specs, nums, col, check_format=True, check_exact=False)
    lab = G.labels(cf)
    outcome = "rejected_by_encoder" if facts["rejected"] else ("unrepresentable_budget" if facts["unrepresentable"] else "encoded")
    nt = outcome == "encoded" and len(NT & set(lab)) >= 2
    col.case(key=G.config_key(cf), nontrivial=nt, labels=lab + [outcome] + (["picnum_omitted"] if nums is None else ["picnum_given"]),
             sample=lambda: {"config": G.config_json(cf), "pictures": [list(s) for s in specs], "pic_nums": nums,
                             "stream_bytes": facts.get("bytes"), "max_qindex": facts.get("max_q")})
    if facts["rejected"]:
        col.count("rejected:" + facts["rejected"])


def run_shard(spec, ctx):
    run_given(E.cases(thorough=ctx.thorough), body, ctx, ctx.pick(150, 400))
    # boundary-directed stratum: coded slice lengths placed on the 255/256-byte length-field boundaries
    run_given(E.boundary_cases(), body, ctx, ctx.pick(15, 40), salt=1)


def replay(data, col):
    cf, specs, nums = E.case_from_json(data)
    body((cf, specs, nums), col)
