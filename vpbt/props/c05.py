"""C05 — decoder test cases are conformant and decode to their intended pictures."""

import contextlib
import glob
import logging
import os

from hypothesis import strategies as st

from vc2_data_tables import PictureCodingModes, WaveletFilters

from vpbt import core
from vpbt.core import run_given
from vpbt.gen import configs as G
from vpbt.gen import streams as S

ID = "C05"
LEVEL = "exploration"
RULE = (
    "Hypothesis draws valid regular configurations from a bounded box (frames <= 16x16 that are multiples of the subsampling / "
    "field structure, both profiles, lossless, all wavelets with asymmetric variants, dwt_depth <= 2, dwt_depth_ho <= 1, slices "
    "<= 3 per axis, fragments 0/1/k/total/more, 4:4:4/4:2:2/4:2:0, both coding modes, bit depths 1-16 incl. presets, default and "
    "custom matrices, pixel aspect ratios within [1/4,4]); natural pictures are swapped in-process for the suite's 16x16 ones. "
    "Every generator in DECODER_TEST_CASE_GENERATOR_REGISTRY is run (signal_range only for (wavelet, depth) classes measured as "
    "cheap, otherwise counted skipped_expensive). Oracle: (a) each test case serialises with autofill and is accepted by the "
    "validator with the configured 20 video parameters and coding mode; (b) names unique per configuration; (c) content: "
    "padding_data / slice_padding_data / slice_prefix_bytes / slice_size_scaler / absent_next_parse_offset / static_gray / "
    "concatenated_sequences / picture_numbers decode to exact mid-grey 2^(depth-1), picture_numbers carry the documented numbers; "
    "source_parameters_encodings / repeated_sequence_headers / extended_transform_parameters decode to exactly the pictures of "
    "the harness' plain encoding of static_sprite. Evaluations count test cases; non-trivial = test case of a configuration "
    "differing from the suite's minimal format in >= 2 labels; distinct by (configuration, test case name) hash."
)
ASSUMPTIONS = [
    "Regular formats only and pixel aspect ratios within [1/4, 4] because the 16-pixel substitute pictures are in use (DESIGN 7.10).",
    "signal_range is only run for cheap (wavelet, depth) classes: a bound on generated size, not a time-out.",
]

MID_GREY = {"padding_data", "slice_padding_data", "slice_prefix_bytes", "slice_size_scaler", "absent_next_parse_offset",
            "static_gray", "concatenated_sequences", "picture_numbers"}
SAME_AS_SPRITE = {"source_parameters_encodings", "repeated_sequence_headers", "extended_transform_parameters"}
PICNUMS = {
    "start_at_zero": [0, 1, 2, 3, 4, 5, 6, 7],
    "non_zero_start": [1000 + i for i in range(8)],
    "wrap_around": [4294967292, 4294967293, 4294967294, 4294967295, 0, 1, 2, 3],
    "odd_first_picture": [7 + i for i in range(8)],
}
NT = {"asymmetric", "fragments", "420", "422", "fields", "depth>8", "custom_matrix", "LD", "slices>coeffs", "lossless",
      "depth_mismatch", "ho_only", "no_transform"}


def signal_range_cheap(cf):
    w = cf["wavelet_index"]
    wh = cf["wavelet_index_ho"]
    d, dh = cf["dwt_depth"], cf["dwt_depth_ho"]
    haar = (WaveletFilters.haar_no_shift, WaveletFilters.haar_with_shift)
    if w in haar and wh in haar:
        return (d <= 3 and dh == 0) or (d <= 2 and dh <= 2)
    if w == WaveletFilters.le_gall_5_3 and wh == WaveletFilters.le_gall_5_3:
        return (d <= 2 and dh == 0) or (d <= 1 and dh <= 1)
    return (d <= 1 and dh == 0) or (d <= 1 and dh <= 1) or d == 0


@contextlib.contextmanager
def small_natural_pictures():
    from vc2_conformance_data import NATURAL_PICTURES_FILENAMES

    paths = sorted(glob.glob(os.path.join(core.REPO, "tests", "test_images", "*.raw")))
    paths = [p for p in paths if os.path.basename(p) in ("square.raw", "wide.raw", "tall.raw")]
    assert paths, "harness: substitute pictures not found"
    orig = list(NATURAL_PICTURES_FILENAMES)
    NATURAL_PICTURES_FILENAMES[:] = paths
    try:
        yield
    finally:
        NATURAL_PICTURES_FILENAMES[:] = orig


def is_mid_grey(pic, vp):
    dl = G.intlog2(vp["luma_excursion"] + 1)
    dc = G.intlog2(vp["color_diff_excursion"] + 1)
    for comp, d in (("Y", dl), ("C1", dc), ("C2", dc)):
        want = 1 << (d - 1)
        for row in pic[comp]:
            for s in row:
                if s != want:
                    return "%s sample %r != mid-grey %d" % (comp, s, want)
    return None


def check_config(cf, col):
    """Runs every generator for one configuration. Returns number of test cases judged."""
    from vc2_conformance.picture_generators import static_sprite
    from vc2_conformance.test_cases import DECODER_TEST_CASE_GENERATOR_REGISTRY as REG
    from vc2_conformance.test_cases import normalise_test_case_generator

    cfj = G.config_json(cf)
    lab = G.labels(cf)
    nt_cfg = len(NT & set(lab)) >= 2
    want_vp = dict(cf["video_parameters"])
    names = set()
    n = 0
    sprite_ref = None
    for fn in REG.iter_registered_functions():
        gname = fn.__name__
        if gname == "signal_range" and not signal_range_cheap(cf):
            col.count("skipped_expensive:signal_range")
            continue
        rec0 = {"config": cfj, "generator": gname}
        try:
            cases = list(normalise_test_case_generator(fn, cf))
        except Exception as e:
            sig = None
            if (gname == "signal_range" and type(e).__name__ == "KeyError" and cf["dwt_depth"] == 0 and cf["dwt_depth_ho"] == 0
                    and "quantisation_index_bound" in col.crash_bucket(e)):
                sig = "D7-signal-range-zero-depth"
            col.fail("generator-raised:%s:%s" % (gname, col.crash_bucket(e)), rec0,
                     "test case generator %s raised %s: %s" % (gname, type(e).__name__, str(e)[:200]), sig=sig)
            continue
        col.count("generator:%s" % gname, len(cases))
        for tc in cases:
            n += 1
            rec = dict(rec0, test_case=tc.name)
            if tc.name in names:
                col.fail("duplicate-name", rec, "test case name %r produced twice" % tc.name)
            names.add(tc.name)
            try:
                blob = S.serialise_stream(tc.value)
            except Exception as e:
                col.fail("serialise:%s:%s" % (gname, col.crash_bucket(e)), rec, "%s could not be serialised: %s: %s" % (tc.name, type(e).__name__, str(e)[:200]))
                continue
            try:
                v = S.validate(blob)
            except Exception as e:
                col.fail("validate:%s:%s" % (gname, col.crash_bucket(e)), rec, "validator raised %s on %s" % (type(e).__name__, tc.name))
                continue
            if v.error is not None:
                col.fail("nonconformant:%s:%s" % (gname, type(v.error).__name__), rec,
                         "%s rejected by the validator: %s: %s" % (tc.name, type(v.error).__name__, v.error.explain().strip().splitlines()[0][:200]))
                continue
            if not v.pictures:
                # e.g. signal_range for a starved budget yields a header-only stream: conformant, nothing to compare.
                # Only the generators whose documentation promises pictures are required to contain some.
                col.count("no_pictures:%s" % gname)
                if gname in MID_GREY or gname in SAME_AS_SPRITE:
                    col.fail("no-pictures:%s" % gname, rec, "%s decodes to no pictures" % tc.name)
                col.case(key=(G.config_key(cf), tc.name), nontrivial=False, labels=())
                continue
            bad_vp = next((i for i, (_, vp, pcm) in enumerate(v.pictures) if vp != want_vp or pcm != cf["picture_coding_mode"]), None)
            if bad_vp is not None:
                col.fail("video-parameters:%s" % gname, rec, "%s picture %d decodes with other video parameters / coding mode" % (tc.name, bad_vp))
                continue
            if gname in MID_GREY:
                for i, (pic, vp, pcm) in enumerate(v.pictures):
                    why = is_mid_grey(pic, want_vp)
                    if why:
                        col.fail("not-mid-grey:%s" % gname, rec, "%s picture %d: %s" % (tc.name, i, why))
                        break
            if gname == "picture_numbers":
                want = PICNUMS.get(tc.subcase_name)
                got = [pic["pic_num"] for pic, _, _ in v.pictures]
                if want is None or got != want:
                    col.fail("picture-numbers", rec, "%s decodes with numbers %r, documented %r" % (tc.name, got, want))
            if gname == "concatenated_sequences":
                per = 2 if cf["picture_coding_mode"] == PictureCodingModes.pictures_are_fields else 1
                got = [pic["pic_num"] for pic, _, _ in v.pictures]
                if got != list(range(per)) * 2:
                    col.fail("concatenated-numbers", rec, "concatenated_sequences decodes with numbers %r" % got)
            if gname in SAME_AS_SPRITE:
                if sprite_ref is None:
                    try:
                        pics = list(static_sprite(cf["video_parameters"], cf["picture_coding_mode"]))
                        ref_blob, _ = S.encode(cf, pics)
                        sprite_ref = [p for p, _, _ in S.validate(ref_blob).pictures]
                    except Exception as e:
                        sprite_ref = []
                        col.fail("plain-encoding-failed:" + col.crash_bucket(e), rec0, "plain encoding of static_sprite failed: %s" % type(e).__name__)
                if sprite_ref:
                    for i, (pic, _, _) in enumerate(v.pictures):
                        ref = sprite_ref[i % len(sprite_ref)]
                        if any(pic[c] != ref[c] for c in ("Y", "C1", "C2")):
                            col.fail("content-differs:%s" % gname, rec, "%s picture %d differs from the plain encoding of the same source" % (tc.name, i))
                            break
                    want_n = len(sprite_ref) * (2 if gname == "repeated_sequence_headers" else 1)
                    if len(v.pictures) != want_n:
                        col.fail("picture-count:%s" % gname, rec, "%s decodes to %d pictures, expected %d" % (tc.name, len(v.pictures), want_n))
            col.case(key=(G.config_key(cf), tc.name), nontrivial=nt_cfg, labels=())
    return n, lab


def body(cf, col):
    n, lab = check_config(cf, col)
    col.count("configurations")
    for l in lab:
        col.count("cfg:" + l)
    if len(col.samples) < col.MAX_SAMPLES:
        col.sample({"config": G.config_json(cf), "test_cases_checked": n})


def shards(tier):
    return list(range(16 if tier == "quick" else 64))


def run_shard(spec, ctx):
    logging.disable(logging.WARNING)  # generators warn about tiny slices etc.
    strategy = G.codec_features(regular=True, max_size=16, max_depth_bits=16, max_dwt=2, max_dwt_ho=1, max_slices=3)
    if ctx.shard_index % 4 == 3:
        # large-slice stratum: one slice of 24x24 .. 48x48 samples (more than 255 bytes / 510 coefficients per slice:
        # length fields and slice_size_scaler choices beyond their smallest values), half of them lossless
        big = dict(regular=True, min_size=24, max_size=48, max_depth_bits=12, max_dwt=2, max_dwt_ho=1, max_slices=1)
        strategy = st.one_of(G.codec_features(lossless=True, **big), G.codec_features(**big))
    with small_natural_pictures():
        run_given(strategy, body, ctx, ctx.pick(3, 19))


def replay(data, col):
    logging.disable(logging.WARNING)
    cf = G.config_from_json(data["config"])
    with small_natural_pictures():
        check_config(cf, col)
