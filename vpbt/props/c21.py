"""C21 — serdes framework round-trips arbitrary description programs.

A *case* is a random program in a small DSL together with the values it
serialises (plain JSON, see CASE FORMAT).  The harness owns

  * an interpreter of the DSL written from the serdes documentation (`Model`):
    it walks the program with the bit model of vpbt.oracles.bitmodel and produces
    the expected description tree, the description handed to the serialiser and
    the verdict "a 0 bit falls past a bounded block" (ValueError expected);
  * `execute`, which runs the same program against a real SerDes object.

Oracle parts (DESIGN C21): (1) serialise(description) -> bytes -> deserialise
== expected description, typed nodes are of the declared fixeddict type at every
position of the root tree; (2) one needed value deleted -> KeyError /
ListTargetExhaustedError, one unused key or list element added ->
UnusedTargetError; (3) a non-list target used twice -> ReusedTargetError in both
directions, and values stored by the deserialiser are never replaced (identity
snapshot taken from the MonitoredDeserialiser monitor after every primitive).

CASE FORMAT
  case  = {"root": ctxinfo, "body": [stmt...], "sel": {"delete","unused","extra","reuse": int}}
  ctxinfo = {"typed": name|None, "pre": bool, "settype_at": int, "retype": name|None, "deco": bool}
  stmt  = {"op": "bool|nbits|uint_lit|uint|sint|bitarray|bytes", "id", "t", "n", "v", ["dflt"]}
        | {"op": "list", "t"}                       declare_list
        | {"op": "sub", "t", "cm", **ctxinfo, "body"}    subcontext (t may be a declared list)
        | {"op": "block", "t", "length", "pad", "short", "cm", "body"}
        | {"op": "align", "t", "pad", "short"}
        | {"op": "computed", "t", "const", "ref": id|None, "given": "omit|stale"}
        | {"op": "if", "ref": id of an earlier bool, "body"}
  bitarray values are "0101" strings, bytes values hex strings; a bitarray/bytes
  value shorter than n relies on the documented right zero padding.
  Freshly generated cases additionally carry "fit" (refit the value so that bits
  past the enclosing block are 1) and "delta" (block length relative to the
  content); `normalise` resolves both, so stored cases are self-contained.
"""

import copy
import json
import random
from collections import Counter, OrderedDict
from io import BytesIO

from bitarray import bitarray
from hypothesis import strategies as st

from vpbt.core import Collector, run_given
from vpbt.oracles.bitmodel import bits_to_int, dec_sint, dec_uint, enc_nbits, enc_sint, enc_uint, pack, unpack

ID = "C21"
LEVEL = "exploration"
RULE = (
    "Cases are random programs of a DSL over SerDes (primitives bool/nbits/uint_lit/uint/sint/bitarray/bytes on "
    "fresh targets or declared list targets, declare_list, subcontexts as plain dict or as a fixeddict type "
    "created for the body (set_context_type at a drawn position, optional second type change, context_type "
    "decorator at the root, description nodes supplied pre-typed or as plain dicts), lists of (typed) "
    "subcontexts whose elements share a body shape, bounded blocks with length = content + delta "
    "(shorter/equal/longer) or absolute, byte_align, computed_value (constant + an earlier value; omitted or "
    "stale in the input), `if <earlier bool>` blocks, default_values for typed contexts; depth <= 4, <= 25 "
    "statements) drawn by Hypothesis (structure aware) and, for volume, by the same builder on a "
    "random.Random seeded from the shard seed. Values inside blocks are usually refitted so bits past the end "
    "are 1, otherwise the harness' interpreter predicts ValueError. Per case: round trip against the "
    "interpreter's expected description and type tree, then the delete-one / add-unused-key / "
    "add-list-element / reuse-target variants selected by the case's `sel` numbers. Non-trivial = the base "
    "serialisation was predicted to succeed AND (a declared list received >= 2 typed subcontexts OR (a "
    "bounded block ended with >= 1 unused padding bit AND subcontext nesting depth >= 2)); distinct by hash "
    "of the normalised program with its values."
)
ASSUMPTIONS = [
    "byte_align is generated outside bounded blocks only and bounded blocks are not nested (the API rejects nesting).",
    "Deleted values are leaf primitives (or the last element of a list whose last use is a primitive) that have no "
    "entry in default_values; deleting a whole subcontext or a computed value is legal input and is not expected to fail.",
    "Default values are used only for typed contexts whose type is in place before their first statement "
    "(set_context_type first or description supplied pre-typed), as the default lookup is keyed by the current type.",
    "The deserialiser-reuse variant appends 64 bytes of 0xFF to the stream so the duplicated read cannot hit "
    "the end of the file before the target check.",
]

PRIMS = ("bool", "nbits", "uint_lit", "uint", "sint", "bitarray", "bytes")
NUMERIC = ("bool", "nbits", "uint_lit", "uint", "sint")
UNUSED_KEY = "zz_unused"
_OMIT = object()


def EXHAUSTIVE(tier):
    return False


# ---------------------------------------------------------------------------
# values


def to_py(kind, v):
    if kind == "bitarray":
        return bitarray(v)
    if kind == "bytes":
        return bytes.fromhex(v)
    return v


def padded(kind, n, v):
    if kind == "bitarray":
        return v + "0" * (n - len(v))
    if kind == "bytes":
        return v + "00" * (n - len(v) // 2)
    return v


def encode(kind, n, pv):
    if kind == "bool":
        return [1 if pv else 0]
    if kind == "nbits":
        return enc_nbits(n, pv)
    if kind == "uint_lit":
        return enc_nbits(8 * n, pv)
    if kind == "uint":
        return enc_uint(pv)
    if kind == "sint":
        return enc_sint(pv)
    if kind == "bitarray":
        return [1 if c == "1" else 0 for c in pv]
    if kind == "bytes":
        return unpack(bytes.fromhex(pv))
    raise ValueError(kind)


def fit_value(kind, n, v, rem):
    """The value whose code equals the code of v up to the block end and is all ones after it."""
    enc = encode(kind, n, padded(kind, n, v))
    r = max(0, rem)
    if len(enc) <= r or all(enc[r:]):
        return v
    forced = enc[:r] + [1] * (len(enc) - r)
    if kind == "bool":
        return True
    if kind in ("nbits", "uint_lit"):
        return bits_to_int(forced)
    if kind == "bitarray":
        return "".join(str(b) for b in forced)
    if kind == "bytes":
        return pack(forced).hex()
    src = iter(enc[:r])

    def nb():
        return next(src, 1)

    return dec_uint(nb) if kind == "uint" else dec_sint(nb)


def pad_bits(seed, n, short):
    bits = "".join("1" if (seed >> i) & 1 else "0" for i in range(n))
    given = bits[:n // 2] if short else bits
    return given, given + "0" * (n - len(given))


def same(a, b):
    return type(a) is type(b) and a == b


# ---------------------------------------------------------------------------
# the harness' interpreter


class Leaf(object):
    def __init__(self, role, stmt, exp, given):
        self.role = role  # prim | pad | computed
        self.stmt = stmt
        self.exp = exp
        self.given = given
        self.omit = False  # supplied through default_values instead


class ListV(object):
    def __init__(self, target):
        self.target = target
        self.elems = []
        self.omitted = 0  # trailing elements supplied through default_values


class Node(object):
    def __init__(self, info, depth):
        self.tname = info.get("typed")
        self.retype = info.get("retype") if self.tname else None
        self.final = self.retype or self.tname
        self.pre = bool(info.get("pre")) and self.tname is not None
        self.settype_at = info.get("settype_at", 0)
        self.items = OrderedDict()
        self.depth = depth
        self.defaults_ok = self.tname is not None and self.retype is None and (self.settype_at == 0 or self.pre)


class Model(object):
    def __init__(self, case, normalising=False):
        self.case = case
        self.norm = normalising
        self.pos = 0
        self.rem = None
        self.value_error = False
        self.env = {}
        self.nodes = []
        self.lists = []  # (ListV, owner Node)
        self.prims = []  # (stmt, Node, is list target) in execution order
        self.stats = Counter()
        self.root = None
        self.defaults = {}

    # -- bits
    def put(self, enc):
        for b in enc:
            if self.rem is not None:
                self.rem -= 1
                if self.rem < 0:
                    if not b:
                        self.value_error = True
                    continue
            self.pos += 1

    # -- tree
    def store(self, node, t, item):
        cur = node.items.get(t)
        if isinstance(cur, ListV):
            cur.elems.append(item)
        else:
            assert cur is None, "generator reused target %r" % (t,)
            node.items[t] = item

    def run(self):
        self.root = Node(self.case["root"], 1)
        self.nodes.append(self.root)
        self.body(self.case["body"], self.root)
        self.assign_defaults()
        return self

    def body(self, stmts, node):
        for s in stmts:
            op = s["op"]
            if op in PRIMS:
                self.prim(s, node)
            elif op == "list":
                lv = ListV(s["t"])
                self.store(node, s["t"], lv)
                self.lists.append((lv, node))
            elif op == "sub":
                child = Node(s, node.depth + 1)
                self.store(node, s["t"], child)
                self.nodes.append(child)
                self.stats["max_depth"] = max(self.stats["max_depth"], child.depth)
                self.body(s["body"], child)
            elif op == "block":
                self.block(s, node)
            elif op == "align":
                n = (-self.pos) % 8
                self.padding(s, node, n)
                self.stats["align"] += 1
                if n:
                    self.stats["align_nonzero"] += 1
            elif op == "computed":
                val = s["const"] + (int(self.env[s["ref"]]) if s.get("ref") is not None else 0)
                in_list = isinstance(node.items.get(s["t"]), ListV)
                given = val + 1000 if (s.get("given") == "stale" or in_list) else _OMIT
                self.store(node, s["t"], Leaf("computed", s, val, given))
                self.stats["computed"] += 1
            elif op == "if":
                self.stats["if"] += 1
                if self.env[s["ref"]]:
                    self.stats["if_taken"] += 1
                    self.body(s["body"], node)
            else:
                raise ValueError(op)

    def prim(self, s, node):
        kind = s["op"]
        n = s.get("n", 0)
        if self.norm:
            if s.pop("fit", False) and self.rem is not None:
                s["v"] = fit_value(kind, n, s["v"], self.rem)
        pv = padded(kind, n, s["v"])
        before = self.rem
        self.put(encode(kind, n, pv))
        if before is not None and self.rem < 0 and self.rem < before and not self.value_error:
            self.stats["dangling_values"] += 1
        exp = to_py(kind, pv)
        self.env[s["id"]] = exp
        self.store(node, s["t"], Leaf("prim", s, exp, to_py(kind, s["v"])))
        self.prims.append((s, node, isinstance(node.items.get(s["t"]), ListV)))
        self.stats["prims"] += 1
        if pv != s["v"]:
            self.stats["short_values"] += 1

    def padding(self, s, node, n):
        given, exp = pad_bits(s.get("pad", 0), n, s.get("short"))
        self.put(encode("bitarray", n, exp))
        self.store(node, s["t"], Leaf("pad", s, bitarray(exp), bitarray(given)))

    def block(self, s, node):
        if self.norm and "delta" in s:
            s["length"] = max(0, self.measure(s["body"], node) + s.pop("delta"))
        assert self.rem is None, "generator nested bounded blocks"
        self.rem = s["length"]
        self.body(s["body"], node)
        left = self.rem
        self.rem = None
        unused = max(0, left)
        self.stats["blocks"] += 1
        self.stats["blocks_padded" if unused else ("blocks_overrun" if left < 0 else "blocks_exact")] += 1
        self.padding(s, node, unused)

    def measure(self, stmts, node):
        """Number of bits the body would write outside any block (dry run, nothing is modified)."""
        m = Model(self.case)
        m.env = dict(self.env)
        scratch = Node({}, node.depth)
        for t, item in node.items.items():
            if isinstance(item, ListV):
                scratch.items[t] = ListV(t)
        m.body(copy.deepcopy(stmts), scratch)
        return m.pos

    # -- default_values
    def assign_defaults(self):
        for node in self.nodes:
            if not node.defaults_ok:
                continue
            for t, item in node.items.items():
                for leaf in (item.elems if isinstance(item, ListV) else [item]):
                    if isinstance(leaf, Leaf) and leaf.role == "prim" and leaf.stmt.get("dflt"):
                        self.defaults.setdefault((node.tname, t), leaf.given)
        for node in self.nodes:
            if not node.defaults_ok:
                continue
            for t, item in node.items.items():
                d = self.defaults.get((node.tname, t), _OMIT)
                if d is _OMIT:
                    continue
                if isinstance(item, Leaf):
                    if item.role == "prim" and item.stmt.get("dflt") and same(item.given, d):
                        item.omit = True
                        self.stats["defaulted_values"] += 1
                elif isinstance(item, ListV):
                    for leaf in reversed(item.elems):
                        if isinstance(leaf, Leaf) and leaf.role == "prim" and leaf.stmt.get("dflt") and same(leaf.given, d):
                            item.omitted += 1
                            self.stats["defaulted_list_elements"] += 1
                        else:
                            break

    def has_default(self, node, t):
        return any((name, t) in self.defaults for name in (node.tname, node.retype) if name)


def strip(stmts):
    for s in stmts:
        s.pop("fit", None)
        if "delta" in s:
            s["length"] = max(0, s.pop("delta"))
        if "body" in s:
            strip(s["body"])


def normalise(case):
    """Resolve 'fit' and 'delta' (a no-op on an already normalised case)."""
    case = copy.deepcopy(case)
    Model(case, normalising=True).run()
    strip(case["body"])
    return case


# ---------------------------------------------------------------------------
# types, input description, comparison


def collect_types(case):
    entries = {}

    def walk(stmts, names):
        for s in stmts:
            if "t" in s:
                names.add(s["t"])
            if s["op"] == "sub":
                inner = set()
                walk(s["body"], inner)
                for name in (s.get("typed"), s.get("retype") if s.get("typed") else None):
                    if name:
                        entries.setdefault(name, set()).update(inner)
            elif "body" in s:
                walk(s["body"], names)

    top = set()
    walk(case["body"], top)
    r = case["root"]
    for name in (r.get("typed"), r.get("retype") if r.get("typed") else None):
        if name:
            entries.setdefault(name, set()).update(top)
    return entries


def make_types(case):
    from vc2_conformance.fixeddict import fixeddict

    return dict((name, fixeddict(name, *(sorted(names) + [UNUSED_KEY]))) for name, names in collect_types(case).items())


def clone(v):
    return bitarray(v) if isinstance(v, bitarray) else v


NON_LISTS = [0, False, None, b"", {}, (), 321, "x", 0.0]


def build_input(model, types):
    built = {}

    def b(node):
        d = {}
        for t, item in node.items.items():
            if isinstance(item, Leaf):
                if item.omit or item.given is _OMIT:
                    continue
                d[t] = clone(item.given)
            elif isinstance(item, ListV):
                elems = item.elems[:len(item.elems) - item.omitted]
                lst = [b(e) if isinstance(e, Node) else clone(e.given) for e in elems]
                built[id(item)] = lst
                d[t] = lst
            else:
                d[t] = b(item)
        if node.pre:
            d = types[node.tname](d)
        built[id(node)] = d
        return d

    return b(model.root), built


def compare(node, actual, types, side, path, out):
    """side 'des': deserialised description vs expected; side 'ser': the serialiser's context after the run."""
    want = types[node.final] if node.final else dict
    if type(actual) is not want:
        out.append(("context-type", "%s: node is %s, declared %s" % (path or "root", type(actual).__name__, want.__name__)))
        if not isinstance(actual, dict):
            return
    keys = [t for t, item in node.items.items() if not (side == "ser" and isinstance(item, Leaf) and item.omit)]
    if set(actual.keys()) != set(keys):
        out.append(("keys", "%s: keys %r, expected %r" % (path or "root", sorted(actual.keys()), sorted(keys))))
    for t in keys:
        if t not in actual:
            continue
        item = node.items[t]
        a = actual[t]
        p = "%s[%r]" % (path, t)
        if isinstance(item, Node):
            compare(item, a, types, side, p, out)
        elif isinstance(item, Leaf):
            leaf_compare(item, a, side, p, out)
        else:
            n = len(item.elems) - (item.omitted if side == "ser" else 0)
            if type(a) is not list or len(a) != n:
                out.append(("list", "%s: %r, expected a list of %d elements" % (p, a, n)))
                continue
            for i, e in enumerate(item.elems[:n]):
                if isinstance(e, Node):
                    compare(e, a[i], types, side, "%s[%d]" % (p, i), out)
                else:
                    leaf_compare(e, a[i], side, "%s[%d]" % (p, i), out)


def leaf_compare(leaf, a, side, path, out):
    want = leaf.exp if (side == "des" or leaf.role == "computed") else leaf.given
    if not same(a, want):
        out.append(("value:" + leaf.role, "%s: %r, expected %r" % (path, a, want)))


def flatten(ctx, path, out):
    if isinstance(ctx, dict):
        for k, v in ctx.items():
            flatten(v, path + (k,), out)
    elif isinstance(ctx, list):
        for i, v in enumerate(ctx):
            flatten(v, path + (i,), out)
    else:
        out[path] = ctx


# ---------------------------------------------------------------------------
# running a program against a real SerDes


def execute(serdes, case, types, dup_id=None, dup_info=None):
    from vc2_conformance.bitstream.serdes import context_type

    env = {}

    def prim(s):
        k = s["op"]
        t = s["t"]
        if k in ("bool", "uint", "sint"):
            return getattr(serdes, k)(t)
        return getattr(serdes, k)(t, s["n"])

    def run_body(stmts, info):
        at = info.get("settype_at", 0) if info and info.get("typed") else None
        for i, s in enumerate(stmts):
            if at is not None and at == i:
                serdes.set_context_type(types[info["typed"]])
                at = None
            op = s["op"]
            if op in PRIMS:
                env[s["id"]] = prim(s)
                if dup_id is not None and s["id"] == dup_id:
                    dup_info["first"] = env[s["id"]]
                    dup_info["context"] = serdes.cur_context
                    dup_info["armed"] = True
                    prim(s)
                    dup_info["armed"] = False
            elif op == "list":
                serdes.declare_list(s["t"])
            elif op == "sub":
                if s.get("cm", True):
                    with serdes.subcontext(s["t"]):
                        run_body(s["body"], s)
                else:
                    serdes.subcontext_enter(s["t"])
                    run_body(s["body"], s)
                    serdes.subcontext_leave()
            elif op == "block":
                if s.get("cm", True):
                    with serdes.bounded_block(s["t"], s["length"]):
                        run_body(s["body"], None)
                else:
                    serdes.bounded_block_begin(s["length"])
                    run_body(s["body"], None)
                    serdes.bounded_block_end(s["t"])
            elif op == "align":
                serdes.byte_align(s["t"])
            elif op == "computed":
                serdes.computed_value(s["t"], s["const"] + (int(env[s["ref"]]) if s.get("ref") is not None else 0))
            elif op == "if":
                if env[s["ref"]]:
                    run_body(s["body"], None)
            else:
                raise ValueError(op)
        if at is not None:
            serdes.set_context_type(types[info["typed"]])
        if info and info.get("typed") and info.get("retype"):
            serdes.set_context_type(types[info["retype"]])

    root = case["root"]
    if root.get("typed") and root.get("deco") and root.get("settype_at", 0) == 0:
        info = dict(root, typed=None)

        @context_type(types[root["typed"]])
        def top(sd):
            run_body(case["body"], info)

        top(serdes)
        if root.get("retype"):
            serdes.set_context_type(types[root["retype"]])
    else:
        run_body(case["body"], root)


def serialise(case, types, inp, defaults, dup_id=None):
    """-> (bytes or None, exception or None, serialiser)."""
    from vc2_conformance.bitstream.io import BitstreamWriter
    from vc2_conformance.bitstream.serdes import MonitoredSerialiser, Serialiser

    f = BytesIO()
    w = BitstreamWriter(f)
    if case["sel"].get("reuse", 0) % 2:
        ser = MonitoredSerialiser(lambda s, t, v: None, w, inp, defaults)
    else:
        ser = Serialiser(w, inp, defaults)
    try:
        with ser:
            execute(ser, case, types, dup_id, {})
        w.flush()
    except Exception as e:
        return None, e, ser
    return f.getvalue(), None, ser


def check_case(case, fails):
    """Evaluate one normalised case; appends (bucket, message) to fails. Returns (model, info)."""
    from vc2_conformance.bitstream.exceptions import (ListTargetExhaustedError, OutOfRangeError, ReusedTargetError,
                                                      UnusedTargetError)
    from vc2_conformance.bitstream.io import BitstreamReader
    from vc2_conformance.bitstream.serdes import MonitoredDeserialiser

    info = Counter()
    model = Model(case).run()
    types = make_types(case)
    defaults = {}
    for (tname, t), v in model.defaults.items():
        defaults.setdefault(types[tname], {})[t] = v

    def crash(prefix, e):
        return Collector().crash_bucket(e, prefix)

    # ---- (1) round trip
    inp, _ = build_input(model, types)
    data, raised, ser = serialise(case, types, inp, defaults)
    if model.value_error:
        info["value_error_expected"] += 1
        if raised is None:
            fails.append(("zero-past-block-accepted", "a 0 bit falls past the end of a bounded block but serialisation succeeded"))
        elif isinstance(raised, OutOfRangeError) or not isinstance(raised, ValueError):
            fails.append((crash("zero-past-block-wrong-exception", raised), "expected ValueError, got %r" % (raised,)))
        return model, info
    if raised is not None:
        fails.append((crash("serialise-raised", raised), "serialising the complete description raised %r" % (raised,)))
        return model, info
    diffs = []
    compare(model.root, ser.context, types, "ser", "", diffs)
    for kind, msg in diffs[:3]:
        fails.append(("serialiser-context:" + kind, "after serialisation " + msg))

    snap = {}
    broken = []

    def monitor(des, target, value):
        now = {}
        flatten(des.context, (), now)
        for path, obj in snap.items():
            if path not in now or now[path] is not obj:
                broken.append("value at %r was %r, now %r (after reading %r)" % (path, obj, now.get(path, "<gone>"), target))
        snap.clear()
        snap.update(now)

    r = BitstreamReader(BytesIO(data))
    des = MonitoredDeserialiser(monitor, r)
    try:
        with des:
            execute(des, case, types)
    except Exception as e:
        fails.append((crash("deserialise-raised", e), "deserialising the serialised bytes %s raised %r" % (data.hex(), e)))
        return model, info
    monitor(des, "<end>", None)
    if broken:
        fails.append(("deserialiser-overwrote-value", broken[0]))
    diffs = []
    compare(model.root, des.context, types, "des", "", diffs)
    for kind, msg in diffs[:3]:
        fails.append(("roundtrip:" + kind, "deserialised description " + msg + " (bytes %s)" % data.hex()))
    info["roundtrips"] += 1
    if fails:
        return model, info

    sel = case["sel"]
    # ---- (2a) delete one needed value
    cands = []
    for node in model.nodes:
        for t, item in node.items.items():
            if model.has_default(node, t):
                continue
            if isinstance(item, Leaf) and item.role in ("prim", "pad") and not item.omit:
                cands.append((node, t, None))
            elif isinstance(item, ListV) and item.elems and not item.omitted:
                last = item.elems[-1]
                if isinstance(last, Leaf) and last.role == "prim":
                    cands.append((node, t, item))
    if cands:
        node, t, lv = cands[sel["delete"] % len(cands)]
        inp, built = build_input(model, types)
        if lv is None:
            del built[id(node)][t]
            what = "value %r" % (t,)
        else:
            built[id(lv)].pop()
            what = "last element of list %r" % (t,)
        _, raised, _ = serialise(case, types, inp, defaults)
        info["delete_checked"] += 1
        if raised is None:
            fails.append(("missing-value-accepted", "serialisation succeeded although %s was removed from the description" % what))
        elif not isinstance(raised, (KeyError, ListTargetExhaustedError)):
            fails.append((crash("missing-value-wrong-exception", raised), "%s removed: expected KeyError/ListTargetExhaustedError, got %r" % (what, raised)))
    # ---- (2b) one unused key
    node = model.nodes[sel["unused"] % len(model.nodes)]
    inp, built = build_input(model, types)
    built[id(node)][UNUSED_KEY] = 0
    _, raised, _ = serialise(case, types, inp, defaults)
    info["unused_checked"] += 1
    if raised is None:
        fails.append(("unused-key-accepted", "serialisation succeeded with an unused key in a context at depth %d" % node.depth))
    elif not isinstance(raised, UnusedTargetError):
        fails.append((crash("unused-key-wrong-exception", raised), "unused key: expected UnusedTargetError, got %r" % (raised,)))
    # ---- (2c) one unused list element
    lists = [lv for lv, owner in model.lists if not lv.omitted]
    if lists:
        lv = lists[sel["extra"] % len(lists)]
        inp, built = build_input(model, types)
        built[id(lv)].append(clone(built[id(lv)][-1]) if built[id(lv)] and not isinstance(built[id(lv)][-1], dict) else {})
        _, raised, _ = serialise(case, types, inp, defaults)
        info["extra_element_checked"] += 1
        if raised is None:
            fails.append(("unused-list-element-accepted", "serialisation succeeded with an extra element in list %r (%d used)" % (lv.target, len(lv.elems))))
        elif not isinstance(raised, UnusedTargetError):
            fails.append((crash("unused-list-element-wrong-exception", raised), "extra list element: expected UnusedTargetError, got %r" % (raised,)))
    # ---- (2d) a list target holding something that is not a list (empty-looking values included): never used, never
    # silently replaced -- serialisation has to fail
    if model.lists:
        lv, owner = model.lists[sel["extra"] % len(model.lists)]
        if lv.target in (built_owner := build_input(model, types))[1][id(owner)]:
            inp, built = built_owner
            bogus = NON_LISTS[sel["unused"] % len(NON_LISTS)]
            built[id(owner)][lv.target] = bogus
            _, raised, _ = serialise(case, types, inp, defaults)
            info["non_list_checked"] = info.get("non_list_checked", 0) + 1
            if raised is None:
                fails.append(("non-list-under-list-target-accepted", "serialisation succeeded although list target %r (%d elements used) held %r"
                              % (lv.target, len(lv.elems), bogus)))
    # ---- (3) reuse of a non-list target
    cands = [s for s, node, in_list in model.prims if not in_list]
    if cands:
        s = cands[sel["reuse"] % len(cands)]
        inp, _ = build_input(model, types)
        _, raised, _ = serialise(case, types, inp, defaults, dup_id=s["id"])
        info["reuse_checked"] += 1
        if not isinstance(raised, ReusedTargetError):
            fails.append(("reuse-not-rejected:serialiser", "target %r used twice, serialiser raised %r" % (s["t"], raised)))
        r = BitstreamReader(BytesIO(data + b"\xff" * 64))
        des = MonitoredDeserialiser(lambda d, t, v: None, r)
        dup = {}
        raised = None
        try:
            with des:
                execute(des, case, types, s["id"], dup)
        except Exception as e:
            raised = e
        if not (isinstance(raised, ReusedTargetError) and dup.get("armed")):
            fails.append(("reuse-not-rejected:deserialiser", "target %r read twice, deserialiser raised %r" % (s["t"], raised)))
        elif dup["context"].get(s["t"], _OMIT) is not dup["first"]:
            fails.append(("deserialiser-overwrote-value", "after the rejected second read of %r the context holds %r, first value %r"
                          % (s["t"], dup["context"].get(s["t"]), dup["first"])))
    return model, info


# ---------------------------------------------------------------------------
# reduction of failing cases


def _positions(stmts, prefix=()):
    for i, s in enumerate(stmts):
        yield prefix + (i,)
        if "body" in s:
            for p in _positions(s["body"], prefix + (i,)):
                yield p


def _get_list(case, path):
    stmts = case["body"]
    for i in path[:-1]:
        stmts = stmts[i]["body"]
    return stmts


def _refs_and_targets(stmts, refs, targets):
    for s in stmts:
        if s.get("ref") is not None:
            refs.add(s["ref"])
        if "t" in s and s["op"] != "list":
            targets.append(s["t"])
        if "body" in s:
            _refs_and_targets(s["body"], refs, targets)


def buckets_of(case):
    fails = []
    try:
        check_case(case, fails)
    except Exception:
        return set()
    return set(b for b, _ in fails)


def reduce_case(case, bucket, budget=120):
    cur = case
    tries = 0
    progress = True
    while progress and tries < budget:
        progress = False
        for path in reversed(list(_positions(cur["body"]))):
            cand = copy.deepcopy(cur)
            lst = _get_list(cand, path)
            removed = lst.pop(path[-1])
            refs, targets = set(), []
            _refs_and_targets(cand["body"], refs, targets)
            if removed.get("id") in refs:
                continue
            if removed["op"] == "list" and removed["t"] in targets:
                continue
            tries += 1
            if bucket in buckets_of(cand):
                cur = cand
                progress = True
                break
            if tries >= budget:
                break
    return cur


# ---------------------------------------------------------------------------
# generator: one builder, two sources of choices


class HypChooser(object):
    def __init__(self, draw):
        self.draw = draw

    def int(self, lo, hi):
        return self.draw(st.integers(lo, hi))

    def chance(self, percent):
        return self.draw(st.integers(0, 99)) >= 100 - percent

    def choice(self, seq):
        return self.draw(st.sampled_from(seq))


class RndChooser(object):
    def __init__(self, rnd):
        self.rnd = rnd

    def int(self, lo, hi):
        return self.rnd.randint(lo, hi)

    def chance(self, percent):
        return self.rnd.randrange(100) < percent

    def choice(self, seq):
        return seq[self.rnd.randrange(len(seq))]


class Builder(object):
    MAX_DEPTH = 4

    def __init__(self, g, max_ops=25):
        self.g = g
        self.budget = g.int(2, max_ops)
        self.ids = 0
        self.names = 0
        self.tnames = 0

    def name(self, prefix="t"):
        self.names += 1
        return "%s%d" % (prefix, self.names)

    def tname(self):
        self.tnames += 1
        return "T%d" % self.tnames

    def ctxinfo(self, tname=None, typed=None):
        g = self.g
        if typed is None:
            typed = g.chance(60)
        if not typed:
            return {"typed": None}
        return {"typed": tname or self.tname(), "pre": g.chance(40), "settype_at": g.choice([0, 0, 0, 0, 1, 2, 99]),
                "retype": self.tname() if g.chance(8) else None}

    def case(self):
        g = self.g
        root = self.ctxinfo()
        if root["typed"]:
            root["deco"] = g.chance(30)
        body = self.body(1, False, {"lists": []}, [], [])
        return {"root": root, "body": body,
                "sel": {"delete": g.int(0, 999), "unused": g.int(0, 999), "extra": g.int(0, 999), "reuse": g.int(0, 999)}}

    # -- values
    def magnitude(self):
        g = self.g
        c = g.choice([0, 0, 1, 1, 2, 3, 4])
        if c == 0:
            return g.int(0, 10)
        if c == 1:
            return g.int(0, 1000)
        if c == 2:
            return g.int(0, 1 << 32)
        if c == 3:
            return g.int(0, 1 << 70)
        return g.int(0, 1 << 200)

    def bitstr(self, n):
        if n == 0:
            return ""
        return format(self.g.int(0, (1 << n) - 1), "b").zfill(n)

    def value(self, kind, s):
        g = self.g
        if kind == "bool":
            return g.chance(50)
        if kind == "nbits":
            n = s["n"]
            return g.choice([g.int(0, (1 << n) - 1), (1 << n) - 1, 0])
        if kind == "uint_lit":
            return g.int(0, (1 << (8 * s["n"])) - 1)
        if kind == "uint":
            return self.magnitude()
        if kind == "sint":
            m = self.magnitude()
            return -m if g.chance(50) else m
        if kind == "bitarray":
            n = s["n"]
            return self.bitstr(g.choice([n, n, n // 2, g.int(0, n)]))
        n = s["n"]
        ln = g.choice([n, n, max(0, n - 1), g.int(0, n)])
        if ln == 0:
            return ""
        return "%0*x" % (2 * ln, g.int(0, (1 << (8 * ln)) - 1))

    def prim(self, t, in_block, bools, nums, kind=None):
        g = self.g
        k = kind or g.choice(["bool", "bool", "nbits", "nbits", "uint", "uint", "uint", "sint", "sint", "sint",
                              "uint_lit", "bitarray", "bitarray", "bytes", "bytes"])
        self.ids += 1
        s = {"op": k, "id": self.ids, "t": t}
        if k == "nbits":
            s["n"] = g.choice([0, g.int(1, 8), g.int(0, 40)])
        elif k == "uint_lit":
            s["n"] = g.int(0, 3)
        elif k == "bitarray":
            s["n"] = g.int(0, 24)
        elif k == "bytes":
            s["n"] = g.int(0, 4)
        s["v"] = self.value(k, s)
        if in_block:
            s["fit"] = g.chance(88)
        if g.chance(12):
            s["dflt"] = True
        if k == "bool":
            bools.append(s["id"])
        if k in NUMERIC:
            nums.append(s["id"])
        return s

    def redraw(self, stmts, in_block):
        """Copy of a body with new ids and new values (same shape): another element of a list of subcontexts."""
        idmap = {}

        def rec(body):
            out = []
            for s in body:
                s = dict(s)
                if s["op"] in PRIMS:
                    self.ids += 1
                    idmap[s["id"]] = self.ids
                    s["id"] = self.ids
                    s["v"] = self.value(s["op"], s)
                    if "fit" in s or in_block:
                        s["fit"] = self.g.chance(88)
                if s.get("ref") in idmap:
                    s["ref"] = idmap[s["ref"]]
                if s["op"] in ("block", "align"):
                    s["pad"] = self.g.int(0, (1 << 64) - 1)
                if "body" in s:
                    s["body"] = rec(s["body"])
                out.append(s)
            return out

        return rec(stmts)

    @staticmethod
    def has_block(stmts):
        return any(s["op"] in ("block", "align") or ("body" in s and Builder.has_block(s["body"])) for s in stmts)

    def sub(self, t, depth, in_block, info=None, template=None):
        s = {"op": "sub", "t": t, "cm": self.g.chance(70)}
        s.update(info if info is not None else self.ctxinfo())
        if template is not None:
            s["body"] = self.redraw(template, in_block)
        else:
            s["body"] = self.body(depth + 1, in_block, {"lists": []}, [], [])
        return s

    def body(self, depth, in_block, ctx, bools, nums):
        g = self.g
        out = []
        limit = g.int(1, 9)
        while self.budget > 0 and len(out) < limit:
            self.budget -= 1
            opts = ["prim"] * 7 + ["list"] * 2 + ["computed", "if", "if"]
            if ctx["lists"]:
                opts += ["use"] * 6
            if depth < self.MAX_DEPTH:
                opts += ["sub"] * 3
            if not in_block:
                opts += ["block"] * 3 + ["align"]
            k = g.choice(opts)
            if k == "prim":
                out.append(self.prim(self.name(), in_block, bools, nums))
            elif k == "list":
                kind = g.choice(["prim", "prim", "sub", "sub", "sub", "mixed"]) if depth < self.MAX_DEPTH else g.choice(["prim", "mixed"])
                L = {"t": self.name("l"), "kind": kind, "template": None, "info": None,
                     "prim_kind": g.choice([None, None] + list(PRIMS))}
                if kind == "sub":
                    L["info"] = self.ctxinfo(typed=g.chance(75))
                ctx["lists"].append(L)
                out.append({"op": "list", "t": L["t"]})
                for _ in range(g.choice([1, 2, 2, 3, 3]) if kind == "sub" else g.choice([0, 1, 2, 2, 3])):
                    if self.budget > 0 or (L["template"] is not None and len(out) < 12):
                        # further elements of a list of subcontexts re-use the template: no budget needed
                        self.budget = max(0, self.budget - 1)
                        out.append(self.use(L, depth, in_block, bools, nums))
            elif k == "use":
                out.append(self.use(g.choice(ctx["lists"]), depth, in_block, bools, nums))
            elif k == "sub":
                out.append(self.sub(self.name("s"), depth, in_block))
            elif k == "block":
                s = {"op": "block", "t": self.name("p"), "pad": g.int(0, (1 << 64) - 1), "short": g.chance(25), "cm": g.chance(60)}
                if g.chance(80):
                    s["delta"] = g.choice([-9, -5, -3, -2, -1, -1, 0, 0, 1, 2, 3, 7, 12])
                else:
                    s["length"] = g.int(0, 40)
                s["body"] = self.body(depth, True, ctx, list(bools), list(nums))
                out.append(s)
            elif k == "align":
                out.append({"op": "align", "t": self.name("a"), "pad": g.int(0, 255), "short": g.chance(25)})
            elif k == "computed":
                out.append(self.computed(self.name("_c"), nums))
            elif k == "if":
                if not bools:
                    out.append(self.prim(self.name(), in_block, bools, nums, kind="bool"))
                # lists declared inside the conditional body are only usable inside it
                out.append({"op": "if", "ref": g.choice(bools),
                            "body": self.body(depth, in_block, {"lists": list(ctx["lists"])}, list(bools), list(nums))})
        return out

    def computed(self, t, nums):
        g = self.g
        return {"op": "computed", "t": t, "const": g.int(-5, 1000), "ref": g.choice(nums) if nums and g.chance(60) else None,
                "given": g.choice(["omit", "stale"])}

    def use(self, L, depth, in_block, bools, nums):
        g = self.g
        if L["kind"] == "sub":
            info = dict(L["info"])
            if info.get("typed"):
                info["pre"] = g.chance(40)
            if L["template"] is not None and g.chance(75) and not (in_block and self.has_block(L["template"])):
                return self.sub(L["t"], depth, in_block, info, L["template"])
            s = self.sub(L["t"], depth, in_block, info)
            if L["template"] is None:
                L["template"] = s["body"]
            return s
        if L["kind"] == "mixed" and g.chance(35):
            return self.computed(L["t"], nums)
        return self.prim(L["t"], in_block, bools, nums, kind=L["prim_kind"])


@st.composite
def cases(draw, max_ops=25):
    return Builder(HypChooser(draw), max_ops).case()


# ---------------------------------------------------------------------------
# bookkeeping


def evaluate(raw, col):
    case = normalise(raw)
    fails = []
    model, info = check_case(case, fails)
    s = model.stats
    typed_lists = 0
    for lv, owner in model.lists:
        if sum(1 for e in lv.elems if isinstance(e, Node) and e.tname) >= 2:
            typed_lists += 1
    labels = ["programs"]
    if model.value_error:
        labels.append("zero_past_block_expected_ValueError")
    else:
        labels.append("roundtrip_checked")
    if typed_lists:
        labels.append("with_list_of_typed_subcontexts")
    if any(sum(1 for e in lv.elems if isinstance(e, Node)) >= 1 for lv, _ in model.lists):
        labels.append("with_list_of_subcontexts")
    if any(lv.elems and all(isinstance(e, Leaf) for e in lv.elems) for lv, _ in model.lists):
        labels.append("with_list_of_values")
    if s["blocks"]:
        labels.append("with_bounded_block")
    for k in ("blocks_padded", "blocks_exact", "blocks_overrun", "dangling_values", "align_nonzero", "computed",
              "if", "if_taken", "short_values", "defaulted_values", "defaulted_list_elements"):
        if s[k]:
            labels.append("with_" + k)
    if any(n.tname for n in model.nodes):
        labels.append("with_typed_context")
    if any(n.tname and not n.pre for n in model.nodes):
        labels.append("with_plain_dict_converted_by_set_context_type")
    if any(n.retype for n in model.nodes):
        labels.append("with_second_type_change")
    if any(n.tname and n.settype_at > 0 for n in model.nodes):
        labels.append("with_late_set_context_type")
    labels.append("depth_%d" % max(1, s["max_depth"]))
    for k in ("delete_checked", "unused_checked", "extra_element_checked", "reuse_checked"):
        if info[k]:
            labels.append(k)
    nontrivial = (not model.value_error) and bool(typed_lists or (s["blocks_padded"] and s["max_depth"] >= 2))
    key = json.dumps([case["root"], case["body"]], sort_keys=True)
    small = s["prims"] <= 14
    col.case(key=key, nontrivial=nontrivial, labels=labels, sample=(lambda: {"case": case, "expected_bits": model.pos}) if small else None)
    col.count("statements_executed_prims", s["prims"])
    seen = set()
    for bucket, msg in fails:
        if bucket in seen:
            continue
        seen.add(bucket)
        if bucket in col.failures:
            col.failure_counts[bucket] += 1
            continue
        small_case = reduce_case(case, bucket)
        f2 = []
        try:
            check_case(small_case, f2)
        except Exception:
            f2 = []
        msgs = [m for b, m in f2 if b == bucket]
        col.fail(bucket, {"case": small_case if msgs else case}, msgs[0] if msgs else msg)


def shards(tier):
    return [("hyp", k, 8) for k in range(8)] + [("rnd", k, 24) for k in range(24)]


def run_shard(spec, ctx):
    kind, k, n = spec
    if kind == "hyp":
        run_given(cases(25), evaluate, ctx, ctx.pick(400, 50000), shrink=False)
    else:
        rnd = random.Random(ctx.seed * 11 + 5)
        for _ in range(ctx.pick(700, 150000)):
            raw = Builder(RndChooser(rnd), 25).case()
            evaluate(raw, ctx.col)


def replay(data, col):
    case = normalise(data["case"])
    fails = []
    check_case(case, fails)
    col.evaluations += 1
    seen = set()
    for bucket, msg in fails:
        if bucket not in seen:
            seen.add(bucket)
            col.fail(bucket, {"case": case}, msg)
