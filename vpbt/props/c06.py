"""C06 — deserialising then serialising any parseable stream reproduces its bytes."""

from io import BytesIO

from vpbt.core import run_given
from vpbt.gen import corpus as C
from vpbt.gen import mutate as M
from vpbt.gen import streams as S

ID = "C06"
LEVEL = "exploration"
RULE = (
    "Byte strings from the C02 generator (byte-, field- and unit-level mutations of 34 valid streams generated from the current "
    "tree, plus the valid streams and random bytes). Only inputs the Deserialiser parses to completion are judged (EOF / "
    "KeyError / ZeroDivisionError etc. raised by the parsing pseudo-code = not parsed; streams declaring oversized pictures = "
    "out of scope; all counted). Oracle: Serialiser (no defaults, no autofill) over the returned description reproduces the "
    "input bytes exactly, and deserialising that output gives an equal description (computed '_' entries included, except the "
    "_state snapshots compared by value). Non-trivial = a completed round trip over a stream the validator does NOT accept, or "
    "one containing non-empty bounded-block padding bits; distinct by byte-string hash."
)
ASSUMPTIONS = [
    "The deserialiser reaching end of input without an exception is what 'parses to completion' means; exceptions from the "
    "pseudo-code on malformed input are not this property's subject.",
]


def has_padding_bits(desc):
    found = [False]

    def walk(n):
        if found[0]:
            return
        if isinstance(n, dict):
            for k, v in n.items():
                if isinstance(k, str) and k.endswith("_block_padding") and len(v) > 0:
                    found[0] = True
                    return
                if isinstance(k, str) and k.startswith("_"):
                    continue
                walk(v)
        elif isinstance(n, list):
            for v in n:
                walk(v)

    walk(desc)
    return found[0]


def judge(data, col):
    rec = {"hex": data.hex()}
    try:
        with S.deser_guard():
            desc = C.deserialise(data)
    except S.OutOfScope:
        return "out_of_scope", False
    except Exception as e:
        return "not_parsed:" + type(e).__name__, False
    try:
        with S.deser_guard():
            out = C.serialise_plain(desc)
    except S.OutOfScope:
        return "out_of_scope", False
    except Exception as e:
        col.fail(col.crash_bucket(e, "serialise"), rec,
                 "description deserialised from the stream could not be serialised: %s: %s" % (type(e).__name__, str(e)[:300]))
        return "serialise_failed", True
    if out != data:
        n = min(len(out), len(data))
        first = next((i for i in range(n) if out[i] != data[i]), n)
        col.fail("bytes-differ", rec, "re-serialised stream differs from the input at byte %d (lengths %d vs %d)" % (first, len(out), len(data)))
        return "bytes_differ", True
    try:
        with S.deser_guard():
            desc2 = C.deserialise(out)
    except Exception as e:
        col.fail(col.crash_bucket(e, "redeserialise"), rec, "re-deserialising the output raised %s" % type(e).__name__)
        return "redeserialise_failed", True
    if desc2 != desc:
        col.fail("description-differs", rec, "re-deserialised description differs from the first one")
        return "description_differs", True
    nontrivial = has_padding_bits(desc)
    if not nontrivial:
        try:
            v = S.validate(data, guard=True)
            nontrivial = v.error is not None
        except Exception:
            nontrivial = True  # the validator crashing is C02's subject; the stream is certainly not accepted
    return "round_trip_ok", nontrivial


def body(case, col):
    data, meta = case
    if "discarded" in meta:
        col.count("field_mutant_unserialisable")
        col.count("field_mutant_unserialisable:" + meta["discarded"])
    outcome, nt = judge(data, col)
    col.case(key=data, nontrivial=nt, labels=sorted(set(["mode:" + meta["mode"], outcome.split(":")[0], outcome])),
             sample=lambda: {"base": meta["base"], "mode": meta["mode"], "ops": meta["ops"], "outcome": outcome,
                             "bytes": len(data), "hex_prefix": data[:32].hex()})


def shards(tier):
    if tier == "quick":
        return list(range(16))
    # thorough: 64 generator shards + 16 coverage-guided fuzzing jobs (atheris/libFuzzer, oracle inside the target)
    return list(range(64)) + [("fuzz", k) for k in range(16)]


def run_shard(spec, ctx):
    if isinstance(spec, tuple) and spec[0] == "fuzz":
        return M.run_fuzz_shard("C06", spec[1], ctx, 30000)
    run_given(M.mutated_streams(), body, ctx, ctx.pick(800, 2000))


def replay(data, col):
    blob = bytes.fromhex(data["hex"])
    outcome, nt = judge(blob, col)
    col.case(key=blob, nontrivial=nt, labels=(outcome,))
