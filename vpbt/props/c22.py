"""C22 — picture generators produce well-formed pictures for any regular format.

One case = (generator, its optional arguments, video parameters, picture coding mode).
The format is *regular* by construction: frame width a multiple of the horizontal
colour-difference subsampling factor, frame height a multiple of the vertical factor
and of twice that factor for interlaced sources or field coding.

Oracle (own arithmetic, shared with nothing in the repository): at least one picture,
an even number when pictures are fields, ``pic_num`` 0, 1, 2, ..., every component
exactly the coded height x width, every sample a Python ``int`` in [0, 2^depth - 1]
with depth = bit length of the excursion; the generator must not raise.
"""

import random
import warnings

from hypothesis import strategies as st

from vpbt.core import run_given

from vc2_data_tables import (
    BaseVideoFormats,
    ColorDifferenceSamplingFormats,
    PictureCodingModes,
    SourceSamplingModes,
    PresetColorPrimaries,
    PresetColorMatrices,
    PresetTransferFunctions,
    PRESET_SIGNAL_RANGES,
    PRESET_PIXEL_ASPECT_RATIOS,
    PRESET_FRAME_RATES,
)

ID = "C22"
LEVEL = "exploration"
RULE = (
    "Hypothesis draws a base video format (all 23) whose parameters are kept except: frame size := (1..8, sometimes up "
    "to 40) x the subsampling multiple (x2 vertically for interlaced sources or fields), occasionally the native "
    "176x120 / 176x144 size; subsampling, scan, top-field-first and coding mode drawn freely; signal range := the "
    "base's, any preset, or custom with luma and colour-difference depths 1..32 independently (excursion anywhere in "
    "the depth's range, offset 0..2^depth); colour primaries x matrix x transfer function := base's or any combination; "
    "pixel aspect ratio := base's, any preset or custom n:d with n,d <= 16 within [1/4, 4]; clean area inside the "
    "frame. Generator drawn from moving_sprite (num_frames 1..10), static_sprite, linear_ramps, mid_gray, white_noise "
    "(num_frames 1..3, drawn seed) and, at low weight, real_pictures with the test-suite's 16-pixel substitute "
    "pictures. Non-trivial = the format has at least two of {4:2:0, pictures are fields, interlaced source, a depth "
    "!= 8, colour spec different from the base format's, frame width < 16}; distinct by (generator, arguments, all "
    "video parameters, coding mode)."
)
ASSUMPTIONS = [
    "Regular formats only (statement): frame size a multiple of the subsampling, and of twice the vertical factor for "
    "interlaced sources or field coding; bit depths 1..32 (docs/source/user_guide/limitations.rst).",
    "Pixel aspect ratios are the presets or customs within [1/4, 4] with terms <= 16: the 128-pixel pointer sprite "
    "and the 16-pixel substitute natural pictures are rescaled by the ratio and degenerate for extreme ratios.",
    "The constant pointer-sprite file is decoded once per shard (picture_generators.read_as_xyz memoised in-process "
    "for that one file, a copy handed out per call); natural pictures are replaced in-process by tests/test_images "
    "as tests/smaller_real_pictures.py does.",
    "real_pictures is not a synthetic generator; it is exercised at low weight and labelled separately.",
]

GENERATORS = ["moving_sprite", "static_sprite", "linear_ramps", "mid_gray", "white_noise"]
COMPONENTS = ("Y", "C1", "C2")
VP_KEYS = [
    "frame_width", "frame_height", "color_diff_format_index", "source_sampling", "top_field_first",
    "frame_rate_numer", "frame_rate_denom", "pixel_aspect_ratio_numer", "pixel_aspect_ratio_denom",
    "clean_width", "clean_height", "left_offset", "top_offset", "luma_offset", "luma_excursion",
    "color_diff_offset", "color_diff_excursion", "color_primaries_index", "color_matrix_index",
    "transfer_function_index",
]
ENUMS = {
    "color_diff_format_index": ColorDifferenceSamplingFormats,
    "source_sampling": SourceSamplingModes,
    "color_primaries_index": PresetColorPrimaries,
    "color_matrix_index": PresetColorMatrices,
    "transfer_function_index": PresetTransferFunctions,
}


def EXHAUSTIVE(tier):
    return False


# --------------------------------------------------------------------------
# own arithmetic


def coded_layout(vp, pcm):
    """{"Y": (width, height, depth), ...}: coded picture component sizes and depths (11.6.2 / 11.6.3)."""
    fw, fh = vp["frame_width"], vp["frame_height"]
    cdf = int(vp["color_diff_format_index"])
    lw, lh, cw, ch = fw, fh, fw, fh
    if cdf in (1, 2):
        cw //= 2
    if cdf == 2:
        ch //= 2
    if int(pcm) == 1:
        lh //= 2
        ch //= 2
    ld = int(vp["luma_excursion"]).bit_length()
    cd = int(vp["color_diff_excursion"]).bit_length()
    return {"Y": (lw, lh, ld), "C1": (cw, ch, cd), "C2": (cw, ch, cd)}


def is_regular(vp, pcm):
    cdf = int(vp["color_diff_format_index"])
    hs = 2 if cdf in (1, 2) else 1
    vs = 2 if cdf == 2 else 1
    if int(pcm) == 1 or int(vp["source_sampling"]) == 1:
        vs *= 2
    return vp["frame_width"] % hs == 0 and vp["frame_height"] % vs == 0 and vp["frame_width"] > 0 and vp["frame_height"] > 0


def to_vp(vp):
    from vc2_conformance.pseudocode.video_parameters import VideoParameters

    out = VideoParameters()
    for k in VP_KEYS:
        out[k] = ENUMS[k](vp[k]) if k in ENUMS else vp[k]
    return out


# --------------------------------------------------------------------------
# in-process substitutions (no source changes)

_PREPARED = {}


def prepare():
    """Swap the natural pictures for the test-suite's small ones and memoise the constant sprite decode."""
    import os
    from vpbt import core
    import vc2_conformance_data
    from vc2_conformance import picture_generators as PG

    if _PREPARED.get("done"):
        return PG
    small = [os.path.join(core.REPO, "tests", "test_images", n) for n in ("square.raw", "wide.raw", "tall.raw")]
    if all(os.path.exists(p) for p in small):
        # in place: picture_generators imported the very same list object
        del vc2_conformance_data.NATURAL_PICTURES_FILENAMES[:]
        vc2_conformance_data.NATURAL_PICTURES_FILENAMES.extend(small)
        _PREPARED["real_pictures"] = True
    original = PG.read_as_xyz
    cache = {}

    def read_as_xyz(filename):
        if filename != PG.POINTER_SPRITE_FILENAME:
            return original(filename)
        if filename not in cache:
            cache[filename] = original(filename)
        xyz, vp, pcm = cache[filename]
        return xyz.copy(), vp.copy(), pcm

    PG.read_as_xyz = read_as_xyz
    _PREPARED["done"] = True
    return PG


# --------------------------------------------------------------------------
# the check, from plain data


def check_case(data, col):
    """data: {"generator", "args": {...}, "vp": {...ints/bools...}, "pcm": int}. Returns summary dict or None."""
    PG = prepare()
    vp, pcm, name, args = data["vp"], data["pcm"], data["generator"], data.get("args") or {}
    if not is_regular(vp, pcm):
        raise AssertionError("harness generated an irregular format: %r" % (data,))
    layout = coded_layout(vp, pcm)
    try:
        with warnings.catch_warnings():
            warnings.simplefilter("ignore")
            pictures = list(getattr(PG, name)(to_vp(vp), PictureCodingModes(pcm), **args))
    except Exception as e:
        col.fail(col.crash_bucket(e, "raised:" + name), data, "%s raised %s: %s" % (name, type(e).__name__, str(e)[:300]))
        return None
    n = len(pictures)
    if n < 1:
        col.fail("no-pictures:" + name, data, "%s produced no pictures" % name)
    if pcm == 1 and n % 2 != 0:
        col.fail("odd-field-count:" + name, data, "%s produced %d pictures although pictures are fields" % (name, n))
    for i, pic in enumerate(pictures):
        if not isinstance(pic, dict) or any(k not in pic for k in COMPONENTS + ("pic_num",)):
            col.fail("picture-structure:" + name, data, "picture %d is %r" % (i, type(pic).__name__ if not isinstance(pic, dict) else sorted(pic)))
            continue
        if type(pic["pic_num"]) is not int or pic["pic_num"] != i:
            col.fail("numbering:" + name, data, "picture at position %d of %d has pic_num %r" % (i, n, pic["pic_num"]))
        for c in COMPONENTS:
            w, h, depth = layout[c]
            comp = pic[c]
            if not isinstance(comp, list) or len(comp) != h or any(not isinstance(r, list) or len(r) != w for r in comp):
                got_h = len(comp) if isinstance(comp, list) else None
                got_w = sorted(set(len(r) if isinstance(r, list) else -1 for r in comp))[:3] if isinstance(comp, list) else None
                col.fail("size:" + name, data, "picture %d component %s is %r rows x %r columns, coded size is %d x %d (h x w)"
                         % (i, c, got_h, got_w, h, w))
                continue
            top = (1 << depth) - 1
            bad_type = bad_range = None
            for y, row in enumerate(comp):
                for x, v in enumerate(row):
                    if type(v) is not int:
                        bad_type = bad_type or (x, y, v)
                    elif v < 0 or v > top:
                        bad_range = bad_range or (x, y, v)
            if bad_type:
                col.fail("sample-type:" + name, data, "picture %d %s(x=%d,y=%d) = %r is a %s, not an int"
                         % (i, c, bad_type[0], bad_type[1], bad_type[2], type(bad_type[2]).__name__))
            if bad_range:
                col.fail("sample-range:" + name, data, "picture %d %s(x=%d,y=%d) = %r outside [0, %d] (depth %d)"
                         % (i, c, bad_range[0], bad_range[1], bad_range[2], top, depth))
    return {"pictures": n, "first_Y_row": pictures[0]["Y"][0][:6] if n and isinstance(pictures[0], dict) and pictures[0].get("Y") else None}


# --------------------------------------------------------------------------
# generation

_depth = st.one_of(st.sampled_from([1, 2, 7, 8, 9, 10, 12, 16, 17, 31, 32]), st.integers(1, 32))


@st.composite
def _range(draw):
    d = draw(_depth)
    lo, hi = 1 << (d - 1), (1 << d) - 1
    exc = draw(st.one_of(st.just(hi), st.just(lo), st.integers(lo, hi)))
    off = draw(st.one_of(st.just(0), st.just(1 << (d - 1)), st.just(1 << d), st.integers(0, 1 << d)))
    return off, exc


_PARS = sorted(set((n, d) for n in range(1, 17) for d in range(1, 17) if 4 * n >= d and n <= 4 * d))


@st.composite
def cases(draw, real_ok=True):
    from vc2_conformance.pseudocode.video_parameters import set_source_defaults

    base = draw(st.sampled_from(list(BaseVideoFormats)))
    src = set_source_defaults(base)
    vp = {k: (int(src[k]) if k != "top_field_first" else bool(src[k])) for k in VP_KEYS}
    base_colour = (vp["color_primaries_index"], vp["color_matrix_index"], vp["transfer_function_index"])
    vp["color_diff_format_index"] = draw(st.sampled_from([0, 1, 2]))
    vp["source_sampling"] = draw(st.sampled_from([0, 1]))
    vp["top_field_first"] = draw(st.booleans())
    pcm = draw(st.sampled_from([0, 1]))
    hs = 1 if vp["color_diff_format_index"] == 0 else 2
    vs = (2 if vp["color_diff_format_index"] == 2 else 1) * (2 if (pcm == 1 or vp["source_sampling"] == 1) else 1)
    size_kind = draw(st.sampled_from(["small"] * 12 + ["medium"] * 3 + ["native"]))
    if size_kind == "native":
        vp["frame_width"], vp["frame_height"] = draw(st.sampled_from([(176, 120), (176, 144)]))
    else:
        top = 8 if size_kind == "small" else 40
        vp["frame_width"] = hs * draw(st.integers(1, top))
        vp["frame_height"] = vs * draw(st.integers(1, top if vs < 4 else max(1, top // 2)))
    vp["clean_width"] = draw(st.integers(1, vp["frame_width"]))
    vp["clean_height"] = draw(st.integers(1, vp["frame_height"]))
    vp["left_offset"] = draw(st.integers(0, vp["frame_width"] - vp["clean_width"]))
    vp["top_offset"] = draw(st.integers(0, vp["frame_height"] - vp["clean_height"]))
    rk = draw(st.sampled_from(["base", "preset", "custom", "custom"]))
    if rk == "preset":
        p = PRESET_SIGNAL_RANGES[draw(st.sampled_from(sorted(PRESET_SIGNAL_RANGES)))]
        vp["luma_offset"], vp["luma_excursion"] = p.luma_offset, p.luma_excursion
        vp["color_diff_offset"], vp["color_diff_excursion"] = p.color_diff_offset, p.color_diff_excursion
    elif rk == "custom":
        vp["luma_offset"], vp["luma_excursion"] = draw(_range())
        vp["color_diff_offset"], vp["color_diff_excursion"] = draw(_range())
    if draw(st.booleans()):
        vp["color_primaries_index"] = draw(st.sampled_from([int(m) for m in PresetColorPrimaries]))
        vp["color_matrix_index"] = draw(st.sampled_from([int(m) for m in PresetColorMatrices]))
        vp["transfer_function_index"] = draw(st.sampled_from([int(m) for m in PresetTransferFunctions]))
    ak = draw(st.sampled_from(["base", "preset", "custom"]))
    if ak == "preset":
        r = PRESET_PIXEL_ASPECT_RATIOS[draw(st.sampled_from(sorted(PRESET_PIXEL_ASPECT_RATIOS)))]
        vp["pixel_aspect_ratio_numer"], vp["pixel_aspect_ratio_denom"] = r.numerator, r.denominator
    elif ak == "custom":
        vp["pixel_aspect_ratio_numer"], vp["pixel_aspect_ratio_denom"] = draw(st.sampled_from(_PARS))
    if draw(st.booleans()):
        r = PRESET_FRAME_RATES[draw(st.sampled_from(sorted(PRESET_FRAME_RATES)))]
        vp["frame_rate_numer"], vp["frame_rate_denom"] = r.numerator, r.denominator
    elif draw(st.booleans()):
        vp["frame_rate_numer"], vp["frame_rate_denom"] = draw(st.integers(1, 1 << 32)), draw(st.integers(1, 1 << 32))
    gens = GENERATORS * 4 + (["real_pictures"] if real_ok else [])
    gen = draw(st.sampled_from(gens))
    args = {}
    if gen == "moving_sprite":
        args = draw(st.sampled_from([{}, {"num_frames": 1}, {"num_frames": 2}, {"num_frames": 3}, {"num_frames": 7}]))
        if size_kind == "native" and not args:
            args = {"num_frames": 2}
    elif gen == "white_noise":
        if draw(st.booleans()):
            args = {"num_frames": draw(st.integers(1, 3)), "seed": draw(st.integers(0, (1 << 32) - 1))}
    return {"generator": gen, "args": args, "vp": vp, "pcm": pcm, "base": base.name, "size_kind": size_kind,
            "colour_changed": (vp["color_primaries_index"], vp["color_matrix_index"], vp["transfer_function_index"]) != base_colour}


def features(data):
    vp, pcm = data["vp"], data["pcm"]
    lay = coded_layout(vp, pcm)
    f = []
    if vp["color_diff_format_index"] == 2:
        f.append("4:2:0")
    if pcm == 1:
        f.append("fields")
    if vp["source_sampling"] == 1:
        f.append("interlaced")
    if lay["Y"][2] != 8 or lay["C1"][2] != 8:
        f.append("depth!=8")
    if data.get("colour_changed"):
        f.append("colour-spec-changed")
    if vp["frame_width"] < 16:
        f.append("width<16")
    return f


def depth_class(d):
    return "1-7" if d < 8 else "8" if d == 8 else "9-16" if d <= 16 else "17-31" if d < 32 else "32"


def shards(tier):
    return [("hyp", k) for k in range(16)]


def run_shard(spec, ctx):
    prepare()
    real_ok = bool(_PREPARED.get("real_pictures"))
    seen = [0]

    def body(data, col):
        seen[0] += 1
        replay_data = {k: data[k] for k in ("generator", "args", "vp", "pcm")}
        summary = check_case(replay_data, col)
        f = features(data)
        lay = coded_layout(data["vp"], data["pcm"])
        gen = data["generator"]
        labels = ["generator:" + gen, "size:" + data["size_kind"],
                  "%s x subsampling %d x %s x %s" % (gen, data["vp"]["color_diff_format_index"],
                                                    "fields" if data["pcm"] else "frames",
                                                    "interlaced" if data["vp"]["source_sampling"] else "progressive"),
                  "luma_depth:" + depth_class(lay["Y"][2]), "chroma_depth:" + depth_class(lay["C1"][2]),
                  "transfer_function:%d" % data["vp"]["transfer_function_index"],
                  "matrix:%d" % data["vp"]["color_matrix_index"], "primaries:%d" % data["vp"]["color_primaries_index"],
                  "features:%d" % len(f)]
        labels += ["feature:" + x for x in f]
        if summary is not None:
            labels.append("pictures:%d" % summary["pictures"])
        key = (gen, sorted(data["args"].items()), sorted(data["vp"].items()), data["pcm"])
        col.case(key=key, nontrivial=len(f) >= 2, labels=labels,
                 sample=(lambda: dict(replay_data, base=data["base"], features=f, result=summary,
                                      coded_w_h_depth={c: list(lay[c]) for c in COMPONENTS}))
                 if seen[0] > 12 and seen[0] % 5 == 0 else None)

    run_given(cases(real_ok=real_ok), body, ctx, ctx.pick(190, 60000))


def replay(data, col):
    check_case({k: data[k] for k in ("generator", "args", "vp", "pcm") if k in data}, col)
    col.evaluations += 1
