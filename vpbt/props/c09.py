"""C09 — every decoded picture is well-formed."""

from vpbt.core import run_given
from vpbt.gen import configs as G
from vpbt.gen import corpus as C
from vpbt.gen import streams as S
from vpbt.oracles import geometry as GEO
from vpbt.props import _decode as DEC

ID = "C09"
LEVEL = "exploration"
RULE = (
    "Accepted streams from the C08 generator, weighted towards extreme payloads: slice coefficients re-packed with values up to "
    "+-2^40, +-2^depth, sparse large values, random qindex up to 255 (HQ) / 127 (LD), dangling LD values, for random valid "
    "configurations (odd sizes, asymmetric transforms, luma/chroma depth mismatch, fields, fragments). Oracle on the validator's "
    "output callback: one picture per picture data unit and per completed fragmented picture (counted from the Deserialiser's "
    "description), each component has exactly the harness-computed height x width (frame size, subsampling, coding mode), every "
    "sample is a Python int (bool/float/numpy rejected) in [0, 2^depth-1] with depth = intlog2(excursion+1), pic_num equals the "
    "number coded in the stream, and video parameters equal the header's. Non-trivial = picture in which at least one sample hits "
    "a clip bound and at least one does not; distinct by byte hash."
)
ASSUMPTIONS = ["Only streams the validator accepts are judged; others are counted (variant_not_conformant)."]


def check(cf, specs, nums, plan, col):
    from vc2_conformance.encoder.exceptions import UnsatisfiableCodecFeaturesError

    data = DEC.case_json(cf, specs, nums, plan)
    facts = {"outcome": "judged", "clipmix": False}
    try:
        blob, rfacts, pictures = DEC.build_stream(cf, specs, nums, plan)
    except UnsatisfiableCodecFeaturesError:
        facts["outcome"] = "rejected_by_encoder"
        return facts
    except Exception as e:
        facts["outcome"] = "not_serialisable:" + type(e).__name__
        return facts
    try:
        v = S.validate(blob)
    except Exception as e:
        col.fail(col.crash_bucket(e, "validate"), data, "validator raised %s: %s" % (type(e).__name__, str(e)[:200]))
        return facts
    if v.error is not None:
        facts["outcome"] = "variant_not_conformant:" + type(v.error).__name__
        return facts
    desc = C.deserialise(blob)
    pics, units = DEC.pictures_from_description(desc)
    expected_count = sum(1 for p in pics if len(p["slices"]) == p["tp"]["slice_parameters"]["slices_x"] * p["tp"]["slice_parameters"]["slices_y"])
    if len(v.pictures) != expected_count:
        col.fail("output-count", data, "%d pictures output, stream holds %d complete pictures" % (len(v.pictures), expected_count))
        return facts
    for i, ((pic, vp, pcm), dp) in enumerate(zip(v.pictures, pics)):
        hvp = DEC.video_parameters_from_header(dp["header"])
        fields = int(dp["header"]["picture_coding_mode"]) == 1
        lw, lh, cw, ch = GEO.component_dims(hvp["frame_width"], hvp["frame_height"], hvp["color_diff_format_index"], fields)
        dl = GEO.intlog2(hvp["luma_excursion"] + 1)
        dc = GEO.intlog2(hvp["color_diff_excursion"] + 1)
        if set(pic.keys()) != {"Y", "C1", "C2", "pic_num"}:
            col.fail("picture-keys", data, "picture %d has keys %r" % (i, sorted(pic.keys())))
            continue
        if type(pic["pic_num"]) is not int or pic["pic_num"] != dp["picture_number"]:
            col.fail("pic-num", data, "picture %d output with pic_num %r, stream codes %r" % (i, pic["pic_num"], dp["picture_number"]))
        if int(pcm) != int(dp["header"]["picture_coding_mode"]):
            col.fail("coding-mode", data, "picture %d output with coding mode %r" % (i, pcm))
        got_vp = {k: (int(x) if not isinstance(x, bool) else x) for k, x in vp.items()}
        if got_vp != hvp:
            col.fail("video-parameters", data, "picture %d output with video parameters differing from the header" % i)
        hit = miss = False
        for comp, w, h, depth in (("Y", lw, lh, dl), ("C1", cw, ch, dc), ("C2", cw, ch, dc)):
            plane = pic[comp]
            if len(plane) != h or any(len(r) != w for r in plane):
                col.fail("dimensions", data, "picture %d %s is %sx%d, expected %dx%d" % (
                    i, comp, sorted(set(len(r) for r in plane)), len(plane), w, h))
                continue
            mx = (1 << depth) - 1
            for r in plane:
                for s in r:
                    if type(s) is not int:
                        col.fail("sample-type", data, "picture %d %s holds a %s sample" % (i, comp, type(s).__name__))
                        break
                    if s < 0 or s > mx:
                        col.fail("sample-range", data, "picture %d %s sample %d outside [0, %d]" % (i, comp, s, mx))
                        break
                    if s == 0 or s == mx:
                        hit = True
                    else:
                        miss = True
        facts["clipmix"] = facts["clipmix"] or (hit and miss)
    return facts


def body(case, col):
    cf, specs, nums, plan = case
    facts = check(cf, specs, nums, plan, col)
    lab = G.labels(cf) + [facts["outcome"].split(":")[0], "repack:" + plan["mode"], "q:" + plan["qmode"]]
    if facts["clipmix"]:
        lab.append("clipped_and_unclipped")
    if ":" in facts["outcome"]:
        col.count(facts["outcome"])
    col.case(key=(G.config_key(cf), tuple(specs), repr(plan)), nontrivial=facts["outcome"] == "judged" and facts["clipmix"],
             labels=lab, sample=lambda: DEC.case_json(cf, specs, nums, plan))


def shards(tier):
    return list(range(16 if tier == "quick" else 64))


def run_shard(spec, ctx):
    run_given(DEC.cases(thorough=ctx.thorough, heavy=True), body, ctx, ctx.pick(120, 380))


def replay(data, col):
    body(DEC.case_from_json(data), col)
