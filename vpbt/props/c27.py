"""C27 — fixed-entry dictionaries never hold undeclared keys and pickle faithfully.

One Hypothesis rule based state machine per library fixeddict type.  Every rule
appends one plain-JSON op to a log which ``FDRun`` interprets against the real
type and against a model ``dict`` restricted to the declared keys; ``replay``
feeds a saved log to the same interpreter.
"""

import copy
import pickle

from hypothesis import strategies as st

from vpbt.core import Collector

ID = "C27"
LEVEL = "exploration"
RULE = (
    "One Hypothesis RuleBasedStateMachine per library fixeddict type (every type exported by "
    "bitstream.vc2_fixeddicts, State, VideoParameters, CodecFeatures; one shard each). A machine holds up to 3 "
    "dictionaries of the type; rules: construction (empty / mapping / pairs / iterator / kwargs / "
    "mapping+kwargs / pairs+kwargs / another fixeddict / fromkeys), d[k]=v, setdefault(k, v), update(same "
    "forms), d |= mapping / pairs / iterator / fixeddict, copy(), copy.copy, del, pop, clear, "
    "pickle.loads(dumps(.)) for protocols 0-5 and copy.deepcopy, bare or nested in list / tuple / dict / "
    "another fixeddict / twice in one list. Keys come from declared U undeclared (generic strings, '', 0, "
    "None, near-misses of declared names, names declared by other types; about 1 in 7 draws); values are "
    "ints, bools, None, strings, lists, tuples and nested library fixeddicts. Oracle: model dict restricted "
    "to the declared keys; an adding operation naming an undeclared key must raise FixedDictKeyError (naming "
    "an offered undeclared key and the type) and never leave an undeclared key behind; after every step every "
    "dictionary has the type, only declared keys and the model's items; pickling/deep copying gives an equal "
    "object of the same type (nested fixeddict types preserved). One machine run = one evaluation; "
    "non-trivial = the history contains a rejected undeclared key on a dictionary that also received "
    "at least one successful adding operation; distinct by (type, op log)."
)
ASSUMPTIONS = [
    "setdefault is only called in its two-argument form; the override's signature requires both arguments "
    "(DESIGN 7.6).",
    "Keys are hashable and, in keyword form, strings; values are picklable plain data or library fixeddicts "
    "without reference cycles.",
    "After a rejected multi-key update/|= the keys applied before the offending one may remain (the "
    "statement only forbids undeclared keys); the model is resynchronised from the dictionary after "
    "checking that every item is either the old one or one offered by the update.",
    "del / pop / clear follow plain dict semantics and are only used to reach more states.",
]


def EXHAUSTIVE(tier):
    return False


MAX_REGS = 3
GENERIC_UNDECLARED = ["foo", "not_in_fixeddict", "", 0, None, "pickleable"]


def load_types():
    """({name: class} of every importable library fixeddict type, [(module, exception)] for the others).

    Importing the library copies and builds fixeddicts at module level, so a broken fixeddict can make
    the import itself fail; that is reported as a failure of this property (shard ``__import__``)
    and the remaining types are still exercised.
    """
    import importlib

    out = {}
    errors = []
    try:
        F = importlib.import_module("vc2_conformance.bitstream.vc2_fixeddicts")
        for name in F.__all__:
            obj = getattr(F, name)
            if isinstance(obj, type) and issubclass(obj, dict) and hasattr(obj, "entry_objs"):
                out[name] = obj
    except Exception as exc:
        errors.append(("vc2_conformance.bitstream.vc2_fixeddicts", exc))
    for mod, name in [("vc2_conformance.pseudocode.state", "State"),
                      ("vc2_conformance.pseudocode.video_parameters", "VideoParameters"),
                      ("vc2_conformance.codec_features", "CodecFeatures")]:
        try:
            out[name] = getattr(importlib.import_module(mod), name)
        except Exception as exc:
            errors.append((mod, exc))
    return out, errors


def library_types():
    return load_types()[0]


def undeclared_keys(name, types):
    declared = set(types[name].entry_objs)
    out = list(GENERIC_UNDECLARED)
    for k in list(types[name].entry_objs)[:3]:
        out += [k + "_", k.upper(), k[:-1], " " + k]
    for other in ("FrameSize", "ParseInfo", "State", "CodecFeatures", "HQSlice"):
        if other != name and other in types:
            out += list(types[other].entry_objs)[:2]
    seen = []
    for k in out:
        if k not in declared and k not in seen:
            seen.append(k)
    return seen


class _HarnessBug(Exception):
    pass


def _bucket(col, exc):
    bucket = col.crash_bucket(exc)
    if bucket.endswith("@?"):
        # no frame of the code under test: still attribute to the dictionary operation, the
        # overridden methods are closures inside fixeddict.py and always show up otherwise
        bucket = "crash:%s@builtin" % type(exc).__name__
    return bucket


def same(a, b):
    """Equal and of the same types, recursively through dicts, lists and tuples."""
    if type(a) is not type(b):
        return False
    if isinstance(a, dict):
        return set(a) == set(b) and all(same(a[k], b[k]) for k in a)
    if isinstance(a, (list, tuple)):
        return len(a) == len(b) and all(same(x, y) for x, y in zip(a, b))
    return a == b


class FDRun(object):
    def __init__(self, col, tname, types, FixedDictKeyError):
        self.col = col
        self.tname = tname
        self.types = types
        self.T = types[tname]
        self.KeyErr = FixedDictKeyError
        self.declared = set(self.T.entry_objs)
        self.ops = []
        self.regs = []  # [impl, model]
        self.dead = False
        self.stats = dict(rejected=0, accepted=0, ior=0, ior_undeclared=0, kw_undeclared=0, pickle=0,
                          deepcopy=0, copy=0, construct_rejected=0, partial=0, nested=0, nonempty_pickle=0,
                          setdefault_undeclared=0, setitem_undeclared=0, update_undeclared=0)

    # -- helpers
    def fail(self, bucket, message):
        self.dead = True
        self.col.fail(bucket, {"kind": "fd", "type": self.tname, "ops": list(self.ops)}, message)

    def dec(self, v):
        if isinstance(v, dict):
            if "__fd__" in v:
                obj = self.types[v["__fd__"]]()
                for k, x in v["items"]:
                    dict.__setitem__(obj, k, self.dec(x))  # only declared keys are generated for nested values
                self.stats["nested"] += 1
                return obj
            if "__tuple__" in v:
                return tuple(self.dec(x) for x in v["__tuple__"])
            raise _HarnessBug("bad value %r" % (v,))
        if isinstance(v, list):
            return [self.dec(x) for x in v]
        return v

    def pairs(self, items):
        return [(k, self.dec(v)) for k, v in items]

    def source(self, form, items, kw, src=None):
        """(args, kwargs, offered keys in application order) for construct / update."""
        p = self.pairs(items)
        k = dict(self.pairs(kw))
        if form in ("empty", "none"):
            return (), {}, []
        if form == "mapping":
            return (dict(p),), {}, list(dict(p))
        if form == "pairs":
            return (p,), {}, [a for a, _ in p]
        if form == "iter":
            return (iter(p),), {}, [a for a, _ in p]
        if form == "kwargs":
            return (), k, list(k)
        if form == "mapping+kwargs":
            return (dict(p),), k, list(dict(p)) + list(k)
        if form == "pairs+kwargs":
            return (p,), k, [a for a, _ in p] + list(k)
        if form == "fixeddict":
            s = self.types[src or self.tname]()
            for a, b in p:
                dict.__setitem__(s, a, b)
            return (s,), {}, list(s)
        raise _HarnessBug("bad form %r" % (form,))

    def model_after(self, model, items, kw):
        m = dict(model)
        for k, v in self.pairs(items):
            m[k] = v
        for k, v in self.pairs(kw):
            m[k] = v
        return m

    def expect_key_error(self, exc, offered, what):
        bad = [k for k in offered if k not in self.declared]
        if not isinstance(exc, self.KeyErr):
            self.fail("wrong-exception:" + what, "%s with undeclared key(s) %r raised %s: %s instead of FixedDictKeyError"
                      % (what, bad, type(exc).__name__, exc))
            return False
        if exc.key not in bad or exc.fixeddict_class is not self.T:
            self.fail("wrong-key-error:" + what, "%s with undeclared key(s) %r raised FixedDictKeyError(key=%r, class=%r)"
                      % (what, bad, exc.key, exc.fixeddict_class))
            return False
        return True

    def reg(self, i):
        return self.regs[i % len(self.regs)]

    def push(self, impl, model, slot=0):
        if len(self.regs) >= MAX_REGS:
            self.regs[slot % MAX_REGS] = [impl, model]
        else:
            self.regs.append([impl, model])

    # -- execution
    def apply(self, op):
        if self.dead:
            return
        self.ops.append(op)
        try:
            self._apply(op)
            if not self.dead:
                self.check_all()
        except _HarnessBug:
            raise
        except Exception as exc:
            self.fail(_bucket(self.col, exc), "unexpected %s: %s (op %r)" % (type(exc).__name__, exc, op))

    def _adding(self, what, reg, call, offered, new_model, multi=False, offered_pairs=()):
        """Run an adding operation on reg=[impl, model]; returns the call's result or None."""
        impl, model = reg
        bad = [k for k in offered if k not in self.declared]
        try:
            res = call()
        except KeyError as exc:
            if not bad:
                self.fail("rejected-declared:" + what, "%s with declared keys %r raised %r" % (what, offered, exc))
                return None
            self.stats["rejected"] += 1
            if not self.expect_key_error(exc, offered, what):
                return None
            leaked = [k for k in impl if k not in self.declared]
            if leaked:
                self.fail("undeclared-key-stored:" + what, "%s raised %r but left undeclared key(s) %r in the dictionary"
                          % (what, exc, leaked))
                return None
            if multi:
                # keys before the offending one may have been applied: every item is old or offered
                for k in impl:
                    ok = (k in model and same(impl[k], model[k])) or any(
                        kk == k and same(impl[k], vv) for kk, vv in offered_pairs)
                    if not ok:
                        self.fail("update-corrupted:" + what, "after rejected %s key %r holds %r (old %r)"
                                  % (what, k, impl[k], model.get(k)))
                        return None
                if any(k not in impl for k in model):
                    self.fail("update-corrupted:" + what, "rejected %s removed keys: %r -> %r" % (what, model, dict(impl)))
                    return None
                if dict(impl) != model:
                    self.stats["partial"] += 1
                reg[1] = dict(impl)
            return None
        if bad:
            self.fail("undeclared-key-accepted:" + what,
                      "%s accepted undeclared key(s) %r without FixedDictKeyError; dictionary now %r"
                      % (what, bad, dict(impl) if res is None or not isinstance(res, dict) else dict(res)))
            return None
        self.stats["accepted"] += 1
        reg[1] = new_model
        return res

    def _apply(self, op):
        T = self.T
        name = op["op"]
        st_ = self.stats
        if name == "construct":
            form = op["form"]
            if form == "fromkeys":
                keys = list(op["keys"])
                v = self.dec(op["v"])
                offered = keys
                new_model = dict((k, v) for k in keys)
                call = lambda: T.fromkeys(keys, v)
            else:
                args, kwargs, offered = self.source(form, op.get("items", []), op.get("kw", []), op.get("src"))
                new_model = self.model_after({}, op.get("items", []), op.get("kw", []))
                call = lambda: T(*args, **kwargs)
            bad = [k for k in offered if k not in self.declared]
            what = "construct(%s)" % form
            try:
                d = call()
            except KeyError as exc:
                if not bad:
                    self.fail("rejected-declared:" + what, "%s with declared keys %r raised %r" % (what, offered, exc))
                    return
                st_["rejected"] += 1
                st_["construct_rejected"] += 1
                self.expect_key_error(exc, offered, what)
                return
            if bad:
                self.fail("undeclared-key-accepted:" + what, "%s accepted undeclared key(s) %r: %r" % (what, bad, dict(d)))
                return
            if type(d) is not T:
                self.fail("construct-type", "%s returned %r" % (what, type(d)))
                return
            self.push(d, new_model, op.get("slot", 0))
            return
        if not self.regs:
            return
        reg = self.reg(op.get("r", 0))
        impl, model = reg
        if name == "setitem":
            k, v = op["k"], self.dec(op["v"])
            if k not in self.declared:
                st_["setitem_undeclared"] += 1

            def call():
                impl[k] = v

            nm = dict(model)
            nm[k] = v
            self._adding("setitem", reg, call, [k], nm)
        elif name == "setdefault":
            k, v = op["k"], self.dec(op["v"])
            if k not in self.declared:
                st_["setdefault_undeclared"] += 1
            nm = dict(model)
            exp = nm.setdefault(k, v)
            marker = object()
            box = [marker]

            def call():
                box[0] = impl.setdefault(k, v)

            self._adding("setdefault", reg, call, [k], nm)
            if not self.dead and k in self.declared and not same(box[0], exp):
                self.fail("setdefault-result", "setdefault(%r, %r) returned %r, dict semantics give %r" % (k, v, box[0], exp))
        elif name == "update":
            form = op["form"]
            args, kwargs, offered = self.source(form, op.get("items", []), op.get("kw", []), op.get("src"))
            nm = self.model_after(model, op.get("items", []), op.get("kw", []))
            bad = [k for k in offered if k not in self.declared]
            if bad:
                st_["update_undeclared"] += 1
            if any(k not in self.declared for k, _ in op.get("kw", [])) and "kwargs" in form:
                st_["kw_undeclared"] += 1
            self._adding("update(%s)" % form, reg, lambda: impl.update(*args, **kwargs), offered, nm, multi=True,
                         offered_pairs=self.pairs(op.get("items", [])) + self.pairs(op.get("kw", [])))
        elif name == "ior":
            form = op["form"]
            args, _kw, offered = self.source(form, op.get("items", []), [], op.get("src"))
            other = args[0]
            nm = self.model_after(model, op.get("items", []), [])
            st_["ior"] += 1
            if any(k not in self.declared for k in offered):
                st_["ior_undeclared"] += 1

            def call():
                d = impl
                d |= other
                return d

            what = "ior(%s)" % form
            res = self._adding(what, reg, call, offered, nm, multi=True, offered_pairs=self.pairs(op.get("items", [])))
            if res is not None and not self.dead:
                if type(res) is not T:
                    self.fail("ior-type", "d |= ... rebinds d to %r" % (type(res),))
                    return
                reg[0] = res
        elif name == "copy":
            c = impl.copy()
            st_["copy"] += 1
            if type(c) is not T:
                self.fail("copy-type", "copy() returned %r, not %s" % (type(c), T.__name__))
                return
            self.push(c, dict(model), op.get("slot", 1))
        elif name == "copy_module":
            c = copy.copy(impl)
            st_["copy"] += 1
            if type(c) is not T:
                self.fail("copy-type", "copy.copy() returned %r, not %s" % (type(c), T.__name__))
                return
            self.push(c, dict(model), op.get("slot", 1))
        elif name == "del":
            try:
                del impl[op["k"]]
            except KeyError:
                pass
            model.pop(op["k"], None)
        elif name == "pop":
            try:
                if op.get("has_default"):
                    impl.pop(op["k"], None)
                else:
                    impl.pop(op["k"])
            except KeyError:
                pass
            model.pop(op["k"], None)
        elif name == "clear":
            impl.clear()
            model.clear()
        elif name in ("pickle", "deepcopy"):
            wrap = op.get("wrap", "none")
            if wrap == "list":
                obj, get = [impl, 1], (lambda u: u[0])
            elif wrap == "tuple":
                obj, get = (0, impl), (lambda u: u[1])
            elif wrap == "dict":
                obj, get = {"x": {"y": impl}}, (lambda u: u["x"]["y"])
            elif wrap == "twice":
                obj, get = [impl, impl], (lambda u: u[1])
            elif wrap == "fd":
                first = next(iter(T.entry_objs))
                obj, get = T({first: [impl]}), (lambda u: u[first][0])
            else:
                obj, get = impl, (lambda u: u)
            if name == "pickle":
                st_["pickle"] += 1
                what = "pickle protocol %d (%s)" % (op["protocol"], wrap)
                u = pickle.loads(pickle.dumps(obj, op["protocol"]))
            else:
                st_["deepcopy"] += 1
                what = "copy.deepcopy (%s)" % wrap
                u = copy.deepcopy(obj)
            if model:
                st_["nonempty_pickle"] += 1
            if type(u) is not type(obj):
                self.fail("pickle-type", "%s: container came back as %r" % (what, type(u)))
                return
            r = get(u)
            if type(r) is not T:
                self.fail("pickle-type", "%s of a %s returned %r" % (what, T.__name__, type(r)))
                return
            if r is impl:
                self.fail("pickle-identity", "%s returned the very same object" % what)
                return
            if not (r == impl) or not same(dict(r), model):
                self.fail("pickle-unequal", "%s of %r returned %r" % (what, impl, r))
                return
            if wrap == "twice" and u[0] is not u[1]:
                self.fail("pickle-unequal", "%s: two references to one dictionary came back as two objects" % what)
        else:
            raise _HarnessBug("unknown op %r" % (op,))

    def check_all(self):
        T = self.T
        for impl, model in self.regs:
            if type(impl) is not T:
                self.fail("type-changed", "dictionary became %r" % (type(impl),))
                return
            extra = [k for k in impl if k not in self.declared]
            if extra:
                self.fail("undeclared-key-present", "%s holds undeclared key(s) %r after %r" % (T.__name__, extra, self.ops[-1]))
                return
            if not same(dict(impl), model) or not (impl == model):
                self.fail("model-mismatch", "%s holds %r, model %r after %r" % (T.__name__, dict(impl), model, self.ops[-1]))
                return


def replay_fd(data, col, types, KeyErr):
    run = FDRun(col, data["type"], types, KeyErr)
    for op in data["ops"]:
        run.apply(op)
    return run


def shrink_ops(data, bucket, rerun, budget=300):
    ops = list(data["ops"])
    changed = True
    while changed and budget > 0:
        changed = False
        i = len(ops) - 1
        while i >= 0 and budget > 0:
            cand = ops[:i] + ops[i + 1:]
            budget -= 1
            if bucket in rerun(dict(data, ops=cand)):
                ops = cand
                changed = True
            i -= 1
    return dict(data, ops=ops)


def make_machine(col, tname, types, KeyErr, samples=0):
    from hypothesis.stateful import RuleBasedStateMachine, precondition, rule

    T = types[tname]
    declared = list(T.entry_objs)
    undeclared = undeclared_keys(tname, types)
    undeclared_str = [k for k in undeclared if isinstance(k, str)]
    nsamples = [samples]

    key = st.one_of(*([st.sampled_from(declared)] * 6 + [st.sampled_from(undeclared)]))
    kwkey = st.one_of(*([st.sampled_from(declared)] * 6 + [st.sampled_from(undeclared_str)]))

    type_names = list(types)

    def nested(ti, picks, vals):
        name = type_names[ti % len(type_names)]
        ks = list(types[name].entry_objs)
        items = []
        for p, v in zip(picks, vals):
            k = ks[p % len(ks)]
            if k not in [a for a, _ in items]:
                items.append([k, v])
        return {"__fd__": name, "items": items}

    scalar = st.one_of(st.integers(-5, 300), st.booleans(), st.none(), st.text(alphabet="ab", max_size=3))
    value = st.one_of(
        scalar,
        scalar,
        st.lists(st.integers(0, 9), max_size=3),
        st.builds(lambda xs: {"__tuple__": xs}, st.lists(st.integers(0, 9), max_size=2)),
        st.builds(nested, st.integers(0, 1000), st.lists(st.integers(0, 60), max_size=2), st.lists(scalar, min_size=2, max_size=2)),
        st.builds(lambda n: [n], st.builds(nested, st.integers(0, 1000), st.lists(st.integers(0, 60), max_size=1),
                                           st.lists(scalar, min_size=1, max_size=1))),
    )
    items = st.lists(st.tuples(key, value).map(list), max_size=4)
    kwitems = st.lists(st.tuples(kwkey, value).map(list), max_size=3, unique_by=lambda kv: kv[0])
    own_items = st.lists(st.tuples(st.sampled_from(declared), value).map(list), max_size=3)
    other_fd = st.builds(
        lambda ti, picks, vals: nested(ti, picks, vals),
        st.integers(0, 1000), st.lists(st.integers(0, 60), min_size=1, max_size=3), st.lists(scalar, min_size=3, max_size=3))
    idx = st.integers(0, MAX_REGS - 1)
    construct_forms = st.sampled_from(["empty", "mapping", "pairs", "iter", "kwargs", "mapping+kwargs", "pairs+kwargs"])
    update_forms = st.sampled_from(["none", "mapping", "pairs", "iter", "kwargs", "kwargs", "mapping+kwargs", "pairs+kwargs"])
    ior_forms = st.sampled_from(["mapping", "pairs", "iter"])
    wraps = st.sampled_from(["none", "none", "list", "tuple", "dict", "twice", "fd"])

    def rerun(data, c=None):
        c = c if c is not None else Collector()
        replay_fd(data, c, types, KeyErr)
        return set(c.failures)

    has_regs = precondition(lambda self: bool(self.run.regs))

    class FDMachine(RuleBasedStateMachine):
        def __init__(self):
            super(FDMachine, self).__init__()
            self.run = FDRun(col, tname, types, KeyErr)
            self.before = set(col.failures)

        @rule(form=construct_forms, its=items, kw=kwitems, slot=idx)
        def construct(self, form, its, kw, slot):
            op = {"op": "construct", "form": form, "slot": slot}
            if form in ("mapping", "pairs", "iter", "mapping+kwargs", "pairs+kwargs"):
                op["items"] = its
            if "kwargs" in form:
                op["kw"] = kw
            self.run.apply(op)

        @rule(src=st.one_of(st.builds(lambda its: {"__fd__": tname, "items": _uniq(its)}, own_items), other_fd), slot=idx)
        def construct_from_fixeddict(self, src, slot):
            self.run.apply({"op": "construct", "form": "fixeddict", "src": src["__fd__"], "items": src["items"], "slot": slot})

        @rule(keys=st.lists(key, max_size=3, unique_by=repr), v=scalar, slot=idx)
        def construct_fromkeys(self, keys, v, slot):
            self.run.apply({"op": "construct", "form": "fromkeys", "keys": keys, "v": v, "slot": slot})

        @has_regs
        @rule(r=idx, k=key, v=value)
        def setitem(self, r, k, v):
            self.run.apply({"op": "setitem", "r": r, "k": k, "v": v})

        @has_regs
        @rule(r=idx, k=key, v=value)
        def setdefault(self, r, k, v):
            self.run.apply({"op": "setdefault", "r": r, "k": k, "v": v})

        @has_regs
        @rule(r=idx, form=update_forms, its=items, kw=kwitems)
        def update(self, r, form, its, kw):
            op = {"op": "update", "r": r, "form": form}
            if form in ("mapping", "pairs", "iter", "mapping+kwargs", "pairs+kwargs"):
                op["items"] = its
            if "kwargs" in form:
                op["kw"] = kw
            self.run.apply(op)

        @has_regs
        @rule(r=idx, src=other_fd)
        def update_from_fixeddict(self, r, src):
            self.run.apply({"op": "update", "r": r, "form": "fixeddict", "src": src["__fd__"], "items": src["items"]})

        @has_regs
        @rule(r=idx, form=ior_forms, its=items)
        def ior(self, r, form, its):
            self.run.apply({"op": "ior", "r": r, "form": form, "items": its})

        @has_regs
        @rule(r=idx, src=other_fd)
        def ior_fixeddict(self, r, src):
            self.run.apply({"op": "ior", "r": r, "form": "fixeddict", "src": src["__fd__"], "items": src["items"]})

        @has_regs
        @rule(r=idx, slot=idx, how=st.sampled_from(["copy", "copy", "copy_module"]))
        def copy_(self, r, slot, how):
            self.run.apply({"op": how, "r": r, "slot": slot})

        @has_regs
        @rule(r=idx, k=key)
        def delete(self, r, k):
            self.run.apply({"op": "del", "r": r, "k": k})

        @has_regs
        @rule(r=idx, k=key, has_default=st.booleans())
        def pop(self, r, k, has_default):
            self.run.apply({"op": "pop", "r": r, "k": k, "has_default": has_default})

        @has_regs
        @rule(r=idx)
        def clear(self, r):
            self.run.apply({"op": "clear", "r": r})

        @has_regs
        @rule(r=idx, protocol=st.integers(0, pickle.HIGHEST_PROTOCOL), wrap=wraps)
        def pickle_(self, r, protocol, wrap):
            self.run.apply({"op": "pickle", "r": r, "protocol": protocol, "wrap": wrap})

        @has_regs
        @rule(r=idx, wrap=wraps)
        def deepcopy(self, r, wrap):
            self.run.apply({"op": "deepcopy", "r": r, "wrap": wrap})

        def teardown(self):
            run = self.run
            s = run.stats
            labels = ["machine", "type_" + tname]
            for name, flag in [
                ("machine_with_rejected_undeclared_key", s["rejected"]),
                ("machine_with_rejected_construction", s["construct_rejected"]),
                ("machine_with_setitem_of_undeclared_key", s["setitem_undeclared"]),
                ("machine_with_setdefault_of_undeclared_key", s["setdefault_undeclared"]),
                ("machine_with_update_of_undeclared_key", s["update_undeclared"]),
                ("machine_with_update_kwargs_undeclared_key", s["kw_undeclared"]),
                ("machine_with_ior", s["ior"]),
                ("machine_with_ior_of_undeclared_key", s["ior_undeclared"]),
                ("machine_with_partially_applied_update", s["partial"]),
                ("machine_with_pickle_step", s["pickle"]),
                ("machine_with_deepcopy_step", s["deepcopy"]),
                ("machine_with_pickle_or_deepcopy_of_nonempty_dict", s["nonempty_pickle"]),
                ("machine_with_copy_step", s["copy"]),
                ("machine_with_nested_fixeddict_value", s["nested"]),
            ]:
                if flag:
                    labels.append(name)
            col.count("steps", len(run.ops))
            nontrivial = bool(s["rejected"] and s["accepted"])
            col.case(key=("fd", tname, repr(run.ops)), nontrivial=nontrivial, labels=labels)
            if nsamples[0] > 0 and nontrivial and 4 <= len(run.ops) <= 12 and (s["pickle"] or s["ior_undeclared"]):
                nsamples[0] -= 1
                col.sample({"kind": "fd", "type": tname, "ops": run.ops})
            if run.dead:
                for bucket in [b for b in col.failures if b not in self.before]:
                    f = col.failures[bucket]
                    small = shrink_ops(f["data"], bucket, rerun)
                    if len(small["ops"]) < len(f["data"]["ops"]):
                        c2 = Collector()
                        rerun(small, c2)
                        if bucket in c2.failures:
                            g = c2.failures[bucket]
                            g["shrunk"] = True
                            col.failures[bucket] = g

    return FDMachine


def _uniq(items):
    out = []
    for k, v in items:
        if k not in [a for a, _ in out]:
            out.append([k, v])
    return out


def _key_error_class():
    import importlib

    return importlib.import_module("vc2_conformance.fixeddict").FixedDictKeyError


def shards(tier):
    types, errors = load_types()
    return list(types) + (["__import__"] if errors else [])


def report_import_errors(col):
    for mod, exc in load_types()[1]:
        col.fail(col.crash_bucket(exc, prefix="import"), {"kind": "import", "module": mod},
                 "importing %s (which builds and copies fixeddicts at module level) failed with %s: %s"
                 % (mod, type(exc).__name__, exc))


def run_shard(spec, ctx):
    from hypothesis import HealthCheck, Phase, seed, settings
    from hypothesis.stateful import run_state_machine_as_test

    if spec == "__import__":
        ctx.col.evaluations += 1
        report_import_errors(ctx.col)
        return
    types = library_types()
    machine = make_machine(ctx.col, spec, types, _key_error_class(),
                           samples=1 if spec in ("FrameSize", "ParseInfo", "State", "VideoParameters", "CodecFeatures",
                                                 "Padding", "HQSlice", "SequenceHeader") else 0)
    total = ctx.pick(150, 9000)
    j = 0
    while total > 0:
        n = min(2000, total)
        total -= n
        run_state_machine_as_test(
            seed(ctx.seed + 104729 * j)(machine),
            settings=settings(
                max_examples=n,
                stateful_step_count=ctx.pick(25, 30),
                deadline=None,
                database=None,
                phases=[Phase.generate],
                suppress_health_check=list(HealthCheck),
                print_blob=False,
            ),
        )
        j += 1


def replay(data, col):
    col.evaluations += 1
    if data.get("kind") == "import":
        report_import_errors(col)
        return
    replay_fd(data, col, library_types(), _key_error_class())
