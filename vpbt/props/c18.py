"""C18 — the data-unit pattern matcher implements its regular-expression language."""

import ast as pyast
import itertools
import os
import random
from collections import Counter

from hypothesis import strategies as st

from vpbt import core
from vpbt.core import run_given
from vpbt.oracles import regex_ref as R

ID = "C18"
LEVEL = "exploration"
RULE = (
    "Three parts. (1) Enumerated box: pattern syntax trees over the leaves {a, b, .}, the binary operators juxtaposition "
    "and '|' and one of {none, ?, *, +} on EVERY node, each rendered with explicit parentheses so that the library parses "
    "the same tree, against EVERY symbol sequence up to a length L over {a, b, x} (x = a symbol no pattern names). "
    "Both tiers: all 12 + 1152 trees with <= 2 leaves and each of them followed by '$' (1164 more), L = 5 (quick) / 6 "
    "(thorough). The 221184 trees with 3 leaves: thorough enumerates ALL of them with L = 3 and every 4th additionally "
    "with L = 4; quick takes every 10th tree (systematic sample, 22119 trees) with L = 3 (labels box3_trees_length_*). "
    "Each maximal sequence is fed to a fresh Matcher; after every prefix the check compares match_symbol's result, "
    "is_complete() and valid_next_symbols() with the reference, so one 'evaluation' in this part is one (pattern, sequence) "
    "pair, every sequence of length 0..L counted once. coverage.exhaustive = true means: every box named above for the "
    "tier was enumerated completely (in quick it is set by the <= 2-leaf box only; the 3-leaf sample is not exhaustive). "
"(2) Hypothesis: trees with up to 8 leaves over three names and '.', "
    "with '$' wherever nothing mandatory follows it, occasionally an empty alternative ('a |', pinned by the repository's "
    "tests), rendered with random whitespace / newlines / redundant parentheses and three naming schemes (one with names "
    "that are prefixes of each other), against sequences of length <= 8 that follow the reference's viable symbols with "
    "random deviations. (3) The repository's real patterns (every distinct LEVEL_SEQUENCE_RESTRICTIONS regex, the "
    "validator's generic pattern, the patterns passed to make_sequence by the test-case generators, the module's "
    "documentation examples) against such walks of length <= 12 over all ParseCodes names. "
    "Oracle: Python re.fullmatch over one character per symbol for completeness; prefix viability by brute-force "
    "extension with <= leaves symbols (re.fullmatch on every candidate: the <= 2-leaf box, every 8th 3-leaf tree, small "
    "patterns elsewhere) and by re.fullmatch against the structurally derived prefix-closure pattern (everywhere else), "
    "always cross-checked with a position automaton (a disagreement between reference engines is a harness error, exit 2). "
    "In parts 2 and 3 every re call runs under a 0.15 s CPU alarm because re backtracks exponentially on some nested "
    "repetitions; a pattern that hits it is judged by the automaton alone (label oracle:re_cut_off_automaton_only, about 1%). "
    "After a rejected symbol the reference state is unchanged (documented), "
    "so sequences continue after rejections. "
    "Non-trivial = the pattern contains at least one of | ? * + and the sequence has >= 2 symbols of which >= 1 was "
    "accepted (the automaton is driven through a real transition and queried again). distinct_nontrivial counts, "
    "conservatively, ONE per distinct box pattern that had a non-trivial sequence (the pair counts are in "
    "labels box_pairs_nontrivial / box_pairs) plus one per distinct non-trivial (pattern text, sequence) of parts 2 and 3. "
    "labels: pat:* = structural features of the evaluated patterns, seq:* = how the sequence ended, "
    "seq:separates_bidirectional_epsilon_model = cases on which a Thompson automaton with two-way empty transitions "
    "(the defect fixed in 66ff94a) answers differently from the reference (measured, parts 2, 3 and the <= 2-leaf box)."
)
ASSUMPTIONS = [
    "Python's re module is the ground truth for full matches; it is cross-checked on every generated case against a "
    "position automaton written for the harness.",
    "The precedence between juxtaposition and '|' is documented as undefined, so generated patterns always parenthesise "
    "where the two meet; the repository's literal patterns are checked to do the same before use.",
    "'$' is only generated where everything after it can match nothing (as the property states); "
    "valid_next_symbols() is required to list exactly the names that have a position of their own available next, "
    "WILDCARD iff a symbol not named by the pattern keeps a match possible, END_OF_SEQUENCE iff the sequence may end.",
    "Symbols fed to match_symbol are names (never the WILDCARD / END_OF_SEQUENCE sentinels).",
]

BOX_SYMS = ("a", "b", "x")
_LEAVES = (("sym", "a"), ("sym", "b"), R.ANY)
_MODS = (None, "opt", "star", "plus")


def EXHAUSTIVE(tier):
    return True   # see RULE for which box; shards overrule this when a --budget deadline cuts the enumeration short


# ---------------------------------------------------------------------------
# enumeration of the box


def enum_asts(n):
    if n == 1:
        for l in _LEAVES:
            for m in _MODS:
                yield l if m is None else (m, l)
        return
    for i in range(1, n):
        lefts = list(enum_asts(i))
        rights = list(enum_asts(n - i))
        for op in ("cat", "alt"):
            for l in lefts:
                for r in rights:
                    for m in _MODS:
                        node = (op, l, r)
                        yield node if m is None else (m, node)


def box_count(n):
    return {1: 12, 2: 1152, 3: 221184}[n]


def box3_slice(k, n):
    """(index, tree) for the 3-leaf trees with index % n == k, in enum_asts(3) order, without building the rest."""
    one = list(enum_asts(1))
    two = list(enum_asts(2))
    blocks = []   # (lefts, rights) per split, as enum_asts(3)
    for i in (1, 2):
        blocks.append((one if i == 1 else two, two if i == 1 else one))
    base = 0
    for lefts, rights in blocks:
        per_op = len(lefts) * len(rights) * 4
        for oi, op in enumerate(("cat", "alt")):
            start = base + oi * per_op
            first = start + ((k - start) % n)
            for idx in range(first, start + per_op, n):
                j = idx - start
                m = _MODS[j % 4]
                r = rights[(j // 4) % len(rights)]
                l = lefts[j // (4 * len(rights))]
                node = (op, l, r)
                yield idx, (node if m is None else (m, node))
        base += 2 * per_op


# ---------------------------------------------------------------------------
# a Thompson automaton with two-way empty transitions: the historic defect, kept
# only to MEASURE how many generated cases would expose it (never an oracle)


class BidiModel(object):
    def __init__(self, ast):
        self.eps = []
        self.sym = []
        self.start, self.final = self._build(ast)

    def _node(self):
        self.eps.append(set())
        self.sym.append([])
        return len(self.eps) - 1

    def _e(self, a, b):
        self.eps[a].add(b)
        self.eps[b].add(a)

    def _build(self, n):
        k = n[0]
        if k == "empty":
            x = self._node()
            return x, x
        if k in ("sym", "any", "eos"):
            s, f = self._node(), self._node()
            self.sym[s].append((n[1] if k == "sym" else ("." if k == "any" else ""), f))
            return s, f
        if k == "cat":
            a = self._build(n[1])
            b = self._build(n[2])
            self._e(a[1], b[0])
            return a[0], b[1]
        if k == "alt":
            s, f = self._node(), self._node()
            for c in (n[1], n[2]):
                x = self._build(c)
                self._e(s, x[0])
                self._e(x[1], f)
            return s, f
        if k == "opt":
            return self._build(("alt", n[1], R.EMPTY))
        if k == "plus":
            return self._build(("cat", n[1], ("star", n[1])))
        s, f = self._node(), self._node()
        x = self._build(n[1])
        self._e(s, f)
        self._e(s, x[0])
        self._e(x[1], x[0])
        self._e(x[1], f)
        return s, f

    def closure(self, states):
        seen = set(states)
        todo = list(states)
        while todo:
            x = todo.pop()
            for y in self.eps[x]:
                if y not in seen:
                    seen.add(y)
                    todo.append(y)
        return seen

    def step(self, states, symbol):
        out = set()
        for x in self.closure(states):
            for l, f in self.sym[x]:
                if l == symbol or l == ".":
                    out.add(f)
        return out

    def complete(self, states):
        c = self.closure(states)
        return self.final in c or any(l == "" for x in c for l, _ in self.sym[x])


# ---------------------------------------------------------------------------
# the judge: reference answers per accepted prefix, cached


class Judge(object):
    """Reference answers for one pattern, cached per accepted prefix.

    mode 'bf'  : completeness by re.fullmatch, viability by brute-force extension with <= leaves symbols
                 (re.fullmatch on every candidate), cross-checked with the position automaton.
    mode 're'  : completeness by re.fullmatch, viability by re.fullmatch against the prefix-closure pattern,
                 cross-checked with the position automaton (and with brute force when bf_check is set and the
                 strings stay short enough for a backtracking engine).
    mode 'all' : Ref.complete / Ref.viable (all engines that are feasible for the pattern).
    """

    BF_MAXLEN = 7

    def __init__(self, ast, symbols, mode, bf_check=False):
        self.ref = R.Ref(ast, extra_symbols=symbols)
        self.symbols = symbols
        self.mode = mode
        self.bf_check = bf_check
        self.aut = self.ref.automaton
        self.named = set(self.ref.pattern_names)
        self.unnamed = [s for s in symbols if s not in self.named]
        self._info = {}

    def info(self, acc):
        r = self._info.get(acc)
        if r is not None:
            return r
        ref = self.ref
        aut = self.aut
        if self.mode == "all":
            complete = ref.complete(acc)
            nxt = dict((a, ref.viable(acc + (a,))) for a in self.symbols)
            other = ref.viable(acc + (R.OTHER,))
            state = aut.run(acc)
        else:
            s = ref.enc(acc)
            complete = ref.fullmatch_s(s)
            nxt = {}
            if self.mode == "bf":
                for a in self.symbols:
                    nxt[a] = ref.viable_bf_s(s + ref.ch[a])
            else:
                bf = self.bf_check and len(s) + 1 + ref.nleaves <= self.BF_MAXLEN
                for a in self.symbols:
                    nxt[a] = ref.viable_re(acc + (a,))
                    if bf and ref.viable_bf_s(s + ref.ch[a]) != nxt[a]:
                        raise R.OracleDisagreement("pattern %r prefix %r + %r: prefix-closure re %r, brute force %r" % (
                            R.render(ref.ast), acc, a, nxt[a], not nxt[a]))
            if self.unnamed:
                other = nxt[self.unnamed[0]]
            else:
                other = ref.viable_re(acc + (R.OTHER,))
            state = aut.run(acc)
            if state is None or aut.accepting(state) != complete or any(
                    aut.viable(aut.step(state, a)) != v for a, v in nxt.items()):
                raise R.OracleDisagreement("pattern %r prefix %r: re engines say complete=%r next=%r, automaton differs" % (
                    R.render(ref.ast), acc, complete, nxt))
        exp_vns = set(aut.labels(state))
        if complete:
            exp_vns.add(R.END_OF_SEQUENCE)
        r = (complete, nxt, other, exp_vns)
        self._info[acc] = r
        return r


def _data(text, ast, raw, symbols):
    return {"pattern": text, "ast": R.to_json(ast), "sequence": list(raw), "symbols": list(symbols)}


def check_state(m, judge, acc, raw, col, text, ast):
    """is_complete() and valid_next_symbols() after the raw sequence (accepted part = acc)."""
    complete, nxt, other, exp_vns = judge.info(acc)
    ok = True
    try:
        c = m.is_complete()
        v = m.valid_next_symbols()
    except Exception as e:
        col.fail(col.crash_bucket(e), _data(text, ast, raw, judge.symbols),
                 "%s after %r for pattern %r: %r" % (type(e).__name__, list(raw), text, e))
        return False
    if c is not True and c is not False:
        col.fail("is_complete-not-bool", _data(text, ast, raw, judge.symbols), "is_complete() returned %r" % (c,))
        ok = False
    if bool(c) != complete:
        col.fail("is_complete-%s" % ("true-but-no-full-match" if c else "false-but-full-match"),
                 _data(text, ast, raw, judge.symbols),
                 "pattern %r after %r (accepted %r): is_complete() = %r, reference full match = %r" % (
                     text, list(raw), list(acc), c, complete))
        ok = False
    if not isinstance(v, set):
        col.fail("valid_next_symbols-not-a-set", _data(text, ast, raw, judge.symbols),
                 "valid_next_symbols() returned %r" % (v,))
        return False
    wild = R.WILDCARD in v
    if wild != other:
        col.fail("valid_next_symbols-wildcard-%s" % ("listed-but-unnamed-symbol-not-viable" if wild else "missing"),
                 _data(text, ast, raw, judge.symbols),
                 "pattern %r after %r: WILDCARD %s valid_next_symbols() = %r but a symbol the pattern does not name is "
                 "%sviable next" % (text, list(raw), "in" if wild else "not in", sorted(v), "" if other else "not "))
        ok = False
    if (R.END_OF_SEQUENCE in v) != complete:
        col.fail("valid_next_symbols-end-of-sequence", _data(text, ast, raw, judge.symbols),
                 "pattern %r after %r: END_OF_SEQUENCE in valid_next_symbols() = %r, sequence may end here = %r" % (
                     text, list(raw), R.END_OF_SEQUENCE in v, complete))
        ok = False
    for a, viable in nxt.items():
        listed = a in v or wild
        if listed != viable:
            col.fail("valid_next_symbols-%s" % ("lists-non-viable-symbol" if listed else "omits-viable-symbol"),
                     _data(text, ast, raw, judge.symbols),
                     "pattern %r after %r: valid_next_symbols() = %r but %r is %sviable next" % (
                         text, list(raw), sorted(v), a, "" if viable else "not "))
            ok = False
    if ok and v != exp_vns:
        col.fail("valid_next_symbols-labels", _data(text, ast, raw, judge.symbols),
                 "pattern %r after %r: valid_next_symbols() = %r, names with a position of their own next = %r" % (
                     text, list(raw), sorted(v), sorted(exp_vns)))
        ok = False
    return ok


def run_sequence(Matcher, text, ast, judge, seq, col, checked=None):
    """Feed seq to a fresh Matcher; check every step.  Returns (accepted tuple, n_rejected, ok)."""
    try:
        m = Matcher(text)
    except Exception as e:
        col.fail(col.crash_bucket(e, "construct"), _data(text, ast, (), judge.symbols),
                 "Matcher(%r) raised %s: %r" % (text, type(e).__name__, e))
        return (), 0, False
    acc = ()
    raw = ()
    rejected = 0
    ok = True
    if checked is None or raw not in checked:
        ok = check_state(m, judge, acc, raw, col, text, ast) and ok
        if checked is not None:
            checked.add(raw)
    for s in seq:
        exp = judge.info(acc)[1][s]
        try:
            got = m.match_symbol(s)
        except Exception as e:
            col.fail(col.crash_bucket(e), _data(text, ast, raw + (s,), judge.symbols),
                     "match_symbol(%r) raised %s after %r for pattern %r" % (s, type(e).__name__, list(raw), text))
            return acc, rejected, False
        raw = raw + (s,)
        if got is not True and got is not False:
            col.fail("match_symbol-not-bool", _data(text, ast, raw, judge.symbols), "match_symbol returned %r" % (got,))
            return acc, rejected, False
        if got != exp:
            if rejected and got is False:
                bucket = "match_symbol-rejects-viable-symbol-after-an-earlier-rejection"
            elif got:
                bucket = "match_symbol-accepts-symbol-with-no-matching-continuation"
            else:
                bucket = "match_symbol-rejects-viable-symbol"
            col.fail(bucket, _data(text, ast, raw, judge.symbols),
                     "pattern %r: after %r (accepted so far %r) match_symbol(%r) = %r but the reference says the "
                     "extended sequence is %sa prefix of a matching sequence" % (
                         text, list(raw[:-1]), list(acc), s, got, "" if exp else "not "))
            return acc, rejected, False
        if got:
            acc = acc + (s,)
        else:
            rejected += 1
        if checked is None or raw not in checked:
            ok = check_state(m, judge, acc, raw, col, text, ast) and ok
            if checked is not None:
                checked.add(raw)
    return acc, rejected, ok


def separates_bidi(b, judge, seq):
    """Would the two-way-epsilon model b answer differently anywhere along seq?"""
    states = {b.start}
    acc = ()
    if b.complete(states) != judge.info(acc)[0]:
        return True
    for s in seq:
        exp = judge.info(acc)[1][s]
        nxt = b.step(states, s)
        if bool(nxt) != exp:
            return True
        if exp:
            states = nxt
            acc = acc + (s,)
            if b.complete(states) != judge.info(acc)[0]:
                return True
    return False


# ---------------------------------------------------------------------------
# part 1: the box


def box_pattern(Matcher, ast, L, col, stats, measure_bidi, mode="bf", bf_check=False):
    text = R.render(ast)
    judge = Judge(ast, BOX_SYMS, mode, bf_check)
    checked = set()
    nontrivial_pairs = 0
    operator = R.has_operator(ast)
    bidi = BidiModel(ast) if measure_bidi else None
    for seq in itertools.product(BOX_SYMS, repeat=L):
        run_sequence(Matcher, text, ast, judge, seq, col, checked)
    # statistics over every sequence of length 0..L (each exactly once), from the reference
    pairs = 0
    for n in range(L + 1):
        for seq in itertools.product(BOX_SYMS, repeat=n):
            pairs += 1
            acc = ()
            for s in seq:
                if judge.info(acc)[1][s]:
                    acc = acc + (s,)
            if len(acc) < n:
                stats["seq:contains_rejected_symbol"] += 1
            elif judge.info(acc)[0]:
                stats["seq:all_accepted_and_complete"] += 1
            else:
                stats["seq:all_accepted_not_complete"] += 1
            if operator and n >= 2 and len(acc) >= 1:
                nontrivial_pairs += 1
            if measure_bidi and n and separates_bidi(bidi, judge, seq):
                stats["seq:separates_bidirectional_epsilon_model"] += 1
    stats["box_pairs"] += pairs
    stats["box_pairs_nontrivial"] += nontrivial_pairs
    stats["box_patterns"] += 1
    for f in R.features(ast):
        stats[f] += 1
    col.evaluations += pairs
    if nontrivial_pairs:
        col.nontrivial.add(core.hash64("box:" + text))
    return nontrivial_pairs


def run_box(spec, ctx, Matcher):
    kind, k, n = spec
    col = ctx.col
    stats = Counter()
    sampled = 0
    complete = True
    if kind == "box2":
        L = ctx.pick(5, 6)
        pats = list(enum_asts(1)) + list(enum_asts(2))
        pats = pats + [("cat", p, R.EOS) for p in pats]
        todo = [p for i, p in enumerate(pats) if i % n == k]
        for p in todo:
            if ctx.expired():
                col.inconclusive = 1
                complete = False
                break
            nt = box_pattern(Matcher, p, L, col, stats, True)
            if nt and sampled < 1 and k == 0 and "alt" in repr(p):
                sampled += 1
                col.sample({"part": "box", "pattern": R.render(p), "sequences": "all of length <= %d over a,b,x" % L,
                            "non_trivial_sequences": nt})
    else:
        for i, p in box3_slice(k, n):
            if ctx.expired():
                col.inconclusive = 1
                complete = False
                break
            if ctx.thorough:
                L = 4 if i % 4 == 0 else 3       # every tree with length <= 3, every 4th also with length 4
            elif i % 10:
                continue                          # quick: a systematic 1/10 sample of the 3-leaf trees
            else:
                L = 3
            stats["box3_trees_length_%d" % L] += 1
            nt = box_pattern(Matcher, p, L, col, stats, False, "re", (i // n) % 8 == 0)
            if nt and sampled < 1 and k == 0 and i > 40000:
                sampled += 1
                col.sample({"part": "box", "pattern": R.render(p), "sequences": "all of length <= %d over a,b,x" % L,
                            "non_trivial_sequences": nt})
    for key, v in stats.items():
        col.count(key, v)
    # quick enumerates the <= 2-leaf box completely and samples the 3-leaf trees; thorough enumerates both
    if not complete:
        col.exhaustive = False
    elif kind == "box2" or ctx.thorough:
        col.exhaustive = True


# ---------------------------------------------------------------------------
# part 2: generated patterns

SCHEMES = R.SCHEMES
sized_tree = R.sized_tree


@st.composite
def generated_cases(draw):
    scheme = draw(st.sampled_from(SCHEMES))
    n = draw(st.integers(1, 8))
    tree = draw(sized_tree(scheme[:3], n))
    tree = R.repair_eos(tree, R.sym(scheme[0]))
    rseed = draw(st.integers(0, (1 << 32) - 1))
    picks = draw(st.lists(st.integers(0, 255), min_size=1, max_size=8))
    return tree, scheme, rseed, picks


def walk(judge, symbols, picks):
    """Deterministic sequence from picks: mostly symbols the reference says are viable, sometimes any symbol."""
    acc = ()
    seq = []
    for p in picks:
        nxt = judge.info(acc)[1]
        free = (p & 7) == 0
        idx = p >> 3
        viable = [s for s in symbols if nxt[s]]
        if free or not viable:
            s = symbols[idx % len(symbols)]
        else:
            s = viable[idx % len(viable)]
        seq.append(s)
        if nxt[s]:
            acc = acc + (s,)
    return tuple(seq)


def evaluate_case(Matcher, text, tree, judge, seq, col, part):
    acc, rejected, ok = run_sequence(Matcher, text, tree, judge, seq, col, None)
    labels = ["part:" + part]
    labels.extend(sorted(R.features(tree)))
    if not seq:
        labels.append("seq:empty")
    elif rejected:
        labels.append("seq:contains_rejected_symbol")
    elif judge.info(acc)[0]:
        labels.append("seq:all_accepted_and_complete")
    else:
        labels.append("seq:all_accepted_not_complete")
    sep = bool(seq) and separates_bidi(BidiModel(tree), judge, seq)
    if sep:
        labels.append("seq:separates_bidirectional_epsilon_model")
    labels.append("leaves:%d" % R.leaves(tree) if R.leaves(tree) < 9 else "leaves:9+")
    if judge.ref.re_cut_off:
        labels.append("oracle:re_cut_off_automaton_only")
    nontrivial = R.has_operator(tree) and len(seq) >= 2 and len(acc) >= 1
    col.case(key=(part, text, seq), nontrivial=nontrivial, labels=labels,
             sample=None if col._nt_samples >= 2 else lambda: {"part": part, "pattern": text, "sequence": list(seq), "accepted": list(acc),
                             "complete_at_end": judge.info(acc)[0],
                             "separates_bidirectional_epsilon_model": sep})


# ---------------------------------------------------------------------------
# part 3: the repository's own patterns

DOC_PATTERNS = (
    "sequence_header .* end_of_sequence",
    "(sequence_header high_quality_picture)* end_of_sequence",
    "(. padding_data)+ end_of_sequence",
    "",
)
FALLBACK_TEST_CASE_PATTERNS = (
    "(sequence_header .)+",
    "sequence_header (padding_data .)* padding_data end_of_sequence $",
)


def test_case_patterns():
    """String literals passed as data-unit patterns to make_sequence(...) by the test-case generators."""
    found = []
    base = os.path.join(core.REPO, "vc2_conformance", "test_cases")
    for root, _, files in sorted(os.walk(base)):
        for name in sorted(files):
            if not name.endswith(".py"):
                continue
            try:
                tree = pyast.parse(open(os.path.join(root, name)).read())
            except (SyntaxError, OSError):
                continue
            for node in pyast.walk(tree):
                if isinstance(node, pyast.Call) and getattr(node.func, "id", getattr(node.func, "attr", None)) == "make_sequence":
                    for arg in node.args[2:]:
                        if isinstance(arg, pyast.Constant) and isinstance(arg.value, str):
                            found.append(arg.value)
    return found


def real_patterns():
    """[(origin, text)] without duplicates."""
    from vc2_conformance.level_constraints import LEVEL_SEQUENCE_RESTRICTIONS

    out = []
    seen = set()

    def add(origin, text):
        if text not in seen:
            seen.add(text)
            out.append((origin, text))

    for level, r in LEVEL_SEQUENCE_RESTRICTIONS.items():
        add("level %d" % int(level), r.sequence_restriction_regex)
    add("validator generic pattern", "sequence_header .* end_of_sequence")
    tc = test_case_patterns() or list(FALLBACK_TEST_CASE_PATTERNS)
    for t in tc:
        add("test-case generator", t)
    for t in DOC_PATTERNS:
        add("documentation example", t)
    return out


def parse_code_names():
    from vc2_data_tables import ParseCodes

    return tuple(p.name for p in ParseCodes)


# ---------------------------------------------------------------------------


def shards(tier):
    # cheap and diverse parts first: with --budget the 3-leaf box is what gets cut short
    out = [("hyp", k, 12) for k in range(12)]
    out += [("real", k, 4) for k in range(4)]
    out += [("box2", k, 8) for k in range(8)]
    if os.environ.get("VPBT_SKIP_BOX3") != "1":   # development aid only (seed sweeps: the box does not depend on the seed)
        out += [("box3", k, 64) for k in range(64)]
    return out


def run_shard(spec, ctx):
    from vc2_conformance.symbol_re import Matcher

    col = ctx.col
    kind, k, n = spec
    if kind in ("box2", "box3"):
        run_box(spec, ctx, Matcher)
    elif kind == "hyp":
        def body(case, col):
            tree, scheme, rseed, picks = case
            text = R.render(tree, random.Random(rseed)) if rseed % 4 else R.render(tree)
            judge = Judge(tree, scheme, "all")
            seq = walk(judge, scheme, picks)
            evaluate_case(Matcher, text, tree, judge, seq, col, "generated")

        run_given(generated_cases(), body, ctx, ctx.pick(800, 12000))
    else:
        pats = real_patterns()
        names = parse_code_names()
        usable = []
        for origin, text in pats:
            tree = R.parse(text)
            if R.mixes_without_parentheses(text) or not R.eos_well_placed(tree):
                col.count("real:pattern_outside_the_property_domain")
                continue
            usable.append((origin, text, tree))
        col.count("real:patterns_usable", len(usable) if k == 0 else 0)

        def body(case, col):
            idx, picks = case
            origin, text, tree = usable[idx]
            judge = Judge(tree, names, "all")
            seq = walk(judge, names, picks)
            evaluate_case(Matcher, text, tree, judge, seq, col, "real")

        # the longest pattern (levels 1-7) gets three tickets, every other pattern one
        longest = max(range(len(usable)), key=lambda i: R.leaves(usable[i][2]))
        tickets = list(range(len(usable))) + [longest, longest]
        strat = st.tuples(st.sampled_from(tickets), st.lists(st.integers(0, 255), min_size=1, max_size=12))
        run_given(strat, body, ctx, ctx.pick(1000, 8000))


def replay(data, col):
    from vc2_conformance.symbol_re import Matcher

    text = data["pattern"]
    tree = R.from_json(data["ast"]) if data.get("ast") else R.parse(text)
    seq = tuple(data.get("sequence", ()))
    symbols = tuple(data.get("symbols") or sorted(set(seq) | R.names(tree) | {"x"}))
    symbols = symbols + tuple(s for s in seq if s not in symbols)
    judge = Judge(tree, symbols, "all")
    run_sequence(Matcher, text, tree, judge, seq, col, None)
    col.evaluations += 1
