"""C15 — every generated sequence header encodes exactly the requested video format."""

import random
from io import BytesIO
from itertools import islice

from hypothesis import strategies as st

import vc2_data_tables as T
from vc2_data_tables import (
    BaseVideoFormats,
    ColorDifferenceSamplingFormats,
    Levels,
    ParseCodes,
    PictureCodingModes,
    PresetColorMatrices,
    PresetColorPrimaries,
    PresetTransferFunctions,
    Profiles,
    SourceSamplingModes,
    WaveletFilters,
)

from vc2_conformance.codec_features import CodecFeatures
from vc2_conformance.pseudocode.video_parameters import VideoParameters

from vpbt.core import hash64, run_given
from vpbt.gen import configs as G
from vpbt.gen import streams as S
from vpbt.props._decode import video_parameters_from_header

ID = "C15"
LEVEL = "exploration"
RULE = (
    "A case is one codec configuration; every header it yields is one evaluation. Configurations: (level 0, 60 %) one of "
    "the 23 base video formats (harness' own table lookup) with 0-4 perturbed parameter groups out of {frame size +-/small/"
    "other base, colour-difference sampling, scan format, top-field-first, frame rate (each of the 16 presets, near-preset "
    "= one tuple element changed or non-reduced multiple, free custom), pixel aspect ratio (presets, near-preset, custom), "
    "clean area (inside frame, left != top offsets), signal range (8 presets, near-preset, custom), colour spec (7 presets, "
    "one of primaries/matrix/transfer changed, free triple)}, both picture coding modes, made valid by construction (sizes "
    "multiples of the subsampling, clean area inside the frame); (real levels, 40 %) built from the level table: a column "
    "of LEVEL_CONSTRAINTS with level != 0, a base format / coding mode / profile / wavelet / depth / slice counts / slice "
    "bytes from its cells, and only those groups customised whose custom_*_flag cell admits True, with values from the "
    "column's cells (these are admissible by construction: an empty iterator is a failure); a third of the real-level "
    "configurations get one extra free perturbation (near miss: empty iterator allowed iff make_sequence_header raises "
    "IncompatibleLevelAndVideoFormatError). Per configuration: the compact default (make_sequence_header) plus the first "
    "10 and a seeded sample of the remaining headers of iter_sequence_headers (at most 40). Oracle: header + end of "
    "sequence serialised with AUTO version; levels 0-7 through parse_stream, levels 64-66 (ordering pattern demands "
    "pictures) through the decoder's parse_info + sequence_header; accepted, the 20 decoded video parameters and the coding "
    "mode equal the configured ones, and the harness' own table-lookup reading of the header description agrees. "
    "Non-trivial = accepted header using >= 1 custom flag or a base format other than the encoder's first choice; distinct "
    "by hash of (level, serialised header bytes)."
)
ASSUMPTIONS = [
    "Configurations are valid by construction (frame size a multiple of the chroma subsampling and, for field coding, of twice "
    "the vertical subsampling; clean area inside the frame; excursions >= 1; non-zero rates and ratios).",
    "Levels 64-66 are judged on parse_info + sequence_header only (their ordering patterns demand a picture after every "
    "sequence header); no pictures are encoded for this property.",
    "For levels whose major_version cell excludes the AUTO version (64, 65: low-delay profile but major_version {2}) the "
    "rejection is reported as failure bucket level-major-version-conflict (sig L64-65-major-version) and the format "
    "comparison is continued with the smallest version the column admits.",
]

C444 = ColorDifferenceSamplingFormats.color_4_4_4
C422 = ColorDifferenceSamplingFormats.color_4_2_2
C420 = ColorDifferenceSamplingFormats.color_4_2_0
FIELDS = PictureCodingModes.pictures_are_fields
MAX_HEADERS = 40
SIG_VERSION = "L64-65-major-version"

GROUP_KEYS = {
    "frame_size": ("frame_width", "frame_height"),
    "color_diff": ("color_diff_format_index",),
    "scan": ("source_sampling",),
    "tff": ("top_field_first",),
    "frame_rate": ("frame_rate_numer", "frame_rate_denom"),
    "par": ("pixel_aspect_ratio_numer", "pixel_aspect_ratio_denom"),
    "clean_area": ("clean_width", "clean_height", "left_offset", "top_offset"),
    "signal_range": ("luma_offset", "luma_excursion", "color_diff_offset", "color_diff_excursion"),
    "color_spec": ("color_primaries_index", "color_matrix_index", "transfer_function_index"),
}
GROUPS = sorted(GROUP_KEYS)
FLAG_OF = {
    "frame_size": "custom_dimensions_flag", "color_diff": "custom_color_diff_format_flag", "scan": "custom_scan_format_flag",
    "frame_rate": "custom_frame_rate_flag", "par": "custom_pixel_aspect_ratio_flag", "clean_area": "custom_clean_area_flag",
    "signal_range": "custom_signal_range_flag", "color_spec": "custom_color_spec_flag",
}


# ---------------------------------------------------------------------------
# harness' own tables


def base_vp(b):
    """The 20 video parameters of a base video format, read from vc2_data_tables by the harness."""
    p = T.BASE_VIDEO_FORMAT_PARAMETERS[BaseVideoFormats(b)]
    fr = T.PRESET_FRAME_RATES[p.frame_rate_index]
    par = T.PRESET_PIXEL_ASPECT_RATIOS[p.pixel_aspect_ratio_index]
    sr = T.PRESET_SIGNAL_RANGES[p.signal_range_index]
    cs = T.PRESET_COLOR_SPECS[p.color_spec_index]
    return VideoParameters(
        frame_width=p.frame_width, frame_height=p.frame_height,
        color_diff_format_index=ColorDifferenceSamplingFormats(p.color_diff_format_index),
        source_sampling=SourceSamplingModes(p.source_sampling), top_field_first=bool(p.top_field_first),
        frame_rate_numer=fr.numerator, frame_rate_denom=fr.denominator,
        pixel_aspect_ratio_numer=par.numerator, pixel_aspect_ratio_denom=par.denominator,
        clean_width=p.clean_width, clean_height=p.clean_height, left_offset=p.left_offset, top_offset=p.top_offset,
        luma_offset=sr.luma_offset, luma_excursion=sr.luma_excursion,
        color_diff_offset=sr.color_diff_offset, color_diff_excursion=sr.color_diff_excursion,
        color_primaries_index=PresetColorPrimaries(cs.color_primaries_index),
        color_matrix_index=PresetColorMatrices(cs.color_matrix_index),
        transfer_function_index=PresetTransferFunctions(cs.transfer_function_index),
    )


def multiples(vp, pcm):
    cdf = vp["color_diff_format_index"]
    xm = 1 if cdf == C444 else 2
    ym = 2 if cdf == C420 else 1
    if pcm == FIELDS:
        ym *= 2
    return xm, ym


def fixup(vp, pcm):
    """Make the perturbed format valid: sizes multiples of the subsampling, clean area inside the frame."""
    xm, ym = multiples(vp, pcm)
    vp["frame_width"] = max(xm, -(-vp["frame_width"] // xm) * xm)
    vp["frame_height"] = max(ym, -(-vp["frame_height"] // ym) * ym)
    w, h = vp["frame_width"], vp["frame_height"]
    vp["clean_width"] = max(1, min(vp["clean_width"], w))
    vp["clean_height"] = max(1, min(vp["clean_height"], h))
    vp["left_offset"] = min(vp["left_offset"], w - vp["clean_width"])
    vp["top_offset"] = min(vp["top_offset"], h - vp["clean_height"])


def first_group(keys):
    """Root-cause bucket for a parameter mismatch: the first parameter group (header order) with a differing key."""
    for g in ["frame_size", "color_diff", "scan", "tff", "frame_rate", "par", "clean_area", "signal_range", "color_spec"]:
        if any(k in keys for k in GROUP_KEYS[g]):
            return g
    return "other"


def perturbed_groups(vp, b):
    base = base_vp(b)
    return [g for g in GROUPS if any(vp[k] != base[k] for k in GROUP_KEYS[g])]


# ---------------------------------------------------------------------------
# free perturbations (level 0 and near misses)


def _other(draw, values, current):
    vals = [v for v in values if v != current]
    return draw(st.sampled_from(vals))


def _near_tuple(draw, tup, lo=0):
    """Change exactly one element of a preset tuple."""
    i = draw(st.integers(0, len(tup) - 1))
    v = tup[i] + draw(st.sampled_from([-2, -1, 1, 2, 1000]))
    out = list(tup)
    out[i] = max(lo, v)
    if tuple(out) == tuple(tup):
        out[i] = tup[i] + 1
    return tuple(out)


def perturb(draw, vp, pcm, group):
    if group == "frame_size":
        kind = draw(st.sampled_from(["delta", "delta", "small", "other_base", "one_axis"]))
        w, h = vp["frame_width"], vp["frame_height"]
        if kind == "delta":
            w += draw(st.sampled_from([-16, -4, -2, -1, 1, 2, 4, 16]))
            h += draw(st.sampled_from([-16, -4, -2, -1, 0, 1, 2, 4, 16]))
        elif kind == "small":
            w, h = draw(st.integers(1, 64)), draw(st.integers(1, 64))
        elif kind == "other_base":
            p = T.BASE_VIDEO_FORMAT_PARAMETERS[draw(st.sampled_from(list(BaseVideoFormats)))]
            w, h = p.frame_width, p.frame_height
        else:
            if draw(st.booleans()):
                w = draw(st.integers(1, 8192))
            else:
                h = draw(st.integers(1, 4400))
        vp["frame_width"], vp["frame_height"] = max(1, w), max(1, h)
    elif group == "color_diff":
        vp["color_diff_format_index"] = _other(draw, [C444, C422, C420], vp["color_diff_format_index"])
    elif group == "scan":
        vp["source_sampling"] = _other(draw, list(SourceSamplingModes), vp["source_sampling"])
    elif group == "tff":
        vp["top_field_first"] = not vp["top_field_first"]
    elif group == "frame_rate":
        kind = draw(st.sampled_from(["preset", "preset", "near", "near", "multiple", "free"]))
        fr = T.PRESET_FRAME_RATES[draw(st.sampled_from(sorted(T.PRESET_FRAME_RATES)))]
        n, d = fr.numerator, fr.denominator
        if kind == "near":
            which = draw(st.sampled_from(["denom_swap", "elem"]))
            if which == "denom_swap":
                d = {1: 1001, 1001: 1, 2: 1}.get(d, 1)
            else:
                n, d = _near_tuple(draw, (n, d), lo=1)
        elif kind == "multiple":
            k = draw(st.integers(2, 5))
            n, d = n * k, d * k
        elif kind == "free":
            n, d = draw(st.integers(1, 240000)), draw(st.integers(1, 2002))
        vp["frame_rate_numer"], vp["frame_rate_denom"] = n, d
    elif group == "par":
        kind = draw(st.sampled_from(["preset", "preset", "near", "multiple", "free"]))
        pr = T.PRESET_PIXEL_ASPECT_RATIOS[draw(st.sampled_from(sorted(T.PRESET_PIXEL_ASPECT_RATIOS)))]
        n, d = pr.numerator, pr.denominator
        if kind == "near":
            n, d = _near_tuple(draw, (n, d), lo=1)
        elif kind == "multiple":
            k = draw(st.integers(2, 4))
            n, d = n * k, d * k
        elif kind == "free":
            n, d = draw(st.integers(1, 200)), draw(st.integers(1, 200))
        vp["pixel_aspect_ratio_numer"], vp["pixel_aspect_ratio_denom"] = n, d
    elif group == "clean_area":
        w, h = vp["frame_width"], vp["frame_height"]
        kind = draw(st.sampled_from(["inside", "inside", "full", "swap_offsets", "one"]))
        if kind == "full":
            vp.update(clean_width=w, clean_height=h, left_offset=0, top_offset=0)
        elif kind == "swap_offsets":
            vp["left_offset"], vp["top_offset"] = vp["top_offset"], vp["left_offset"] + draw(st.integers(0, 3))
        elif kind == "one":
            k = draw(st.sampled_from(GROUP_KEYS["clean_area"]))
            vp[k] = max(0, vp[k] + draw(st.sampled_from([-8, -1, 1, 2, 8])))
        else:
            cw, ch = draw(st.integers(1, w)), draw(st.integers(1, h))
            vp.update(clean_width=cw, clean_height=ch, left_offset=draw(st.integers(0, w - cw)),
                      top_offset=draw(st.integers(0, h - ch)))
    elif group == "signal_range":
        kind = draw(st.sampled_from(["preset", "preset", "near", "near", "free"]))
        sr = tuple(T.PRESET_SIGNAL_RANGES[draw(st.sampled_from(sorted(T.PRESET_SIGNAL_RANGES)))])
        if kind == "near":
            sr = _near_tuple(draw, sr, lo=0)
        elif kind == "free":
            sr = tuple(draw(st.integers(0 if i % 2 == 0 else 1, (1 << draw(st.integers(1, 16))) - 1 + (i % 2))) for i in range(4))
        lo, le, co, ce = sr
        vp.update(luma_offset=lo, luma_excursion=max(1, le), color_diff_offset=co, color_diff_excursion=max(1, ce))
    elif group == "color_spec":
        kind = draw(st.sampled_from(["preset", "one", "one", "free"]))
        if kind == "preset":
            cs = T.PRESET_COLOR_SPECS[draw(st.sampled_from(sorted(T.PRESET_COLOR_SPECS)))]
            trip = (cs.color_primaries_index, cs.color_matrix_index, cs.transfer_function_index)
        else:
            trip = [vp["color_primaries_index"], vp["color_matrix_index"], vp["transfer_function_index"]]
            enums = [list(PresetColorPrimaries), list(PresetColorMatrices), list(PresetTransferFunctions)]
            which = [draw(st.integers(0, 2))] if kind == "one" else [0, 1, 2]
            for i in which:
                trip[i] = _other(draw, enums[i], trip[i]) if kind == "one" else draw(st.sampled_from(enums[i]))
        vp["color_primaries_index"] = PresetColorPrimaries(trip[0])
        vp["color_matrix_index"] = PresetColorMatrices(trip[1])
        vp["transfer_function_index"] = PresetTransferFunctions(trip[2])


# ---------------------------------------------------------------------------
# codec part of a configuration


def make_cf(level, profile, pcm, vp, wavelet, depth, sx, sy, picture_bytes, qm=None):
    lossless = profile == Profiles.high_quality and picture_bytes is None
    return CodecFeatures(
        name="c15", level=Levels(level), profile=profile, picture_coding_mode=PictureCodingModes(pcm), video_parameters=vp,
        wavelet_index=WaveletFilters(wavelet), wavelet_index_ho=WaveletFilters(wavelet), dwt_depth=depth, dwt_depth_ho=0,
        slices_x=sx, slices_y=sy, fragment_slice_count=0, lossless=lossless, picture_bytes=picture_bytes,
        quantization_matrix=qm,
    )


@st.composite
def level0_configs(draw):
    b = draw(st.sampled_from(list(BaseVideoFormats)))
    pcm = draw(st.sampled_from(list(PictureCodingModes)))
    vp = base_vp(b)
    n = draw(st.sampled_from([0, 1, 1, 2, 2, 3, 4]))
    groups = draw(st.lists(st.sampled_from(GROUPS), min_size=n, max_size=n, unique=True))
    # frame size first so that the clean area is drawn inside the final frame
    for g in sorted(groups, key=lambda g: (g != "frame_size", g != "color_diff", g)):
        perturb(draw, vp, pcm, g)
    fixup(vp, pcm)
    profile = draw(st.sampled_from([Profiles.high_quality, Profiles.low_delay]))
    sx, sy = draw(st.integers(1, 8)), draw(st.integers(1, 8))
    pb = None if profile == Profiles.high_quality and draw(st.booleans()) else sx * sy * draw(st.integers(4, 64))
    cf = make_cf(0, profile, pcm, vp, draw(st.sampled_from(G.WAVELETS)), draw(st.integers(0, 4)), sx, sy, pb)
    return dict(cf=cf, kind="level0", base=int(b), admissible=True, column=None)


def _cell_values(cell, universe):
    from vc2_conformance.constraint_table import AnyValue

    if isinstance(cell, AnyValue):
        return list(universe)
    return sorted(cell.iter_values())


def _is_any(cell):
    from vc2_conformance.constraint_table import AnyValue

    return isinstance(cell, AnyValue)


def _own_same_dimensions(vp, pcm, depth, sx, sy):
    lw, lh, cw, ch = G.dims(vp, pcm)
    sc = 1 << depth
    return all((-(-v // sc)) % s == 0 for v, s in ((lw, sx), (lh, sy), (cw, sx), (ch, sy)))


def real_columns():
    from vc2_conformance.level_constraints import LEVEL_CONSTRAINTS

    return [(i, c) for i, c in enumerate(LEVEL_CONSTRAINTS) if c and 0 not in c["level"]]


def customise_from_cells(draw, vp, pcm, col, group):
    """Set the group's values from the column's cells; returns False when the cells admit no custom value."""
    if group == "frame_size":
        xm, ym = multiples(vp, pcm)
        ws = [w for w in (_cell_values(col["frame_width"], [vp["frame_width"], vp["frame_width"] + 2 * xm * ym, 64]))
              if w >= 1 and w % xm == 0]
        hs = [h for h in (_cell_values(col["frame_height"], [vp["frame_height"], vp["frame_height"] + 2 * ym, 64]))
              if h >= 1 and h % ym == 0]
        if not ws or not hs:
            return False
        vp["frame_width"], vp["frame_height"] = draw(st.sampled_from(ws)), draw(st.sampled_from(hs))
    elif group == "color_diff":
        vals = _cell_values(col["color_diff_format_index"], [C444, C422, C420])
        if not vals:
            return False
        vp["color_diff_format_index"] = ColorDifferenceSamplingFormats(draw(st.sampled_from(vals)))
    elif group == "scan":
        vals = _cell_values(col["source_sampling"], list(SourceSamplingModes))
        if not vals:
            return False
        vp["source_sampling"] = SourceSamplingModes(draw(st.sampled_from(vals)))
    elif group in ("frame_rate", "par", "signal_range"):
        index_key, presets = {
            "frame_rate": ("frame_rate_index", T.PRESET_FRAME_RATES),
            "par": ("pixel_aspect_ratio_index", T.PRESET_PIXEL_ASPECT_RATIOS),
            "signal_range": ("custom_signal_range_index", T.PRESET_SIGNAL_RANGES),
        }[group]
        keys = GROUP_KEYS[group]
        idxs = [i for i in _cell_values(col[index_key], [0] + sorted(int(k) for k in presets))
                if i in presets or (i == 0 and all(_is_any(col[k]) or _cell_values(col[k], []) for k in keys))]
        if not idxs:
            return False
        idx = draw(st.sampled_from(idxs))
        if idx != 0:
            for k, v in zip(keys, tuple(presets[idx])):
                vp[k] = v
        else:
            for k in keys:
                lo = 1 if ("excursion" in k or "numer" in k or "denom" in k) else 0
                vals = [v for v in _cell_values(col[k], [lo, lo + 1, 3, 7, 255, 1001]) if v >= lo]
                if not vals:
                    return False
                vp[k] = draw(st.sampled_from(vals))
    elif group == "clean_area":
        w, h = vp["frame_width"], vp["frame_height"]
        cws = [v for v in _cell_values(col["clean_width"], [w, max(1, w - 16), 1]) if 1 <= v <= w]
        chs = [v for v in _cell_values(col["clean_height"], [h, max(1, h - 8), 1]) if 1 <= v <= h]
        if not cws or not chs:
            return False
        cw, ch = draw(st.sampled_from(cws)), draw(st.sampled_from(chs))
        los = [v for v in _cell_values(col["left_offset"], [0, w - cw, (w - cw) // 2]) if 0 <= v <= w - cw]
        tos = [v for v in _cell_values(col["top_offset"], [0, h - ch, (h - ch) // 3]) if 0 <= v <= h - ch]
        if not los or not tos:
            return False
        vp.update(clean_width=cw, clean_height=ch, left_offset=draw(st.sampled_from(los)), top_offset=draw(st.sampled_from(tos)))
    elif group == "color_spec":
        idxs = [i for i in _cell_values(col["color_spec_index"], sorted(int(k) for k in T.PRESET_COLOR_SPECS)) if i != 0]
        if not idxs:
            return False  # index 0 (sub-flags) is not used by any real level; kept out of the by-construction stratum
        cs = T.PRESET_COLOR_SPECS[draw(st.sampled_from(idxs))]
        vp["color_primaries_index"] = PresetColorPrimaries(cs.color_primaries_index)
        vp["color_matrix_index"] = PresetColorMatrices(cs.color_matrix_index)
        vp["transfer_function_index"] = PresetTransferFunctions(cs.transfer_function_index)
    return True


@st.composite
def real_level_configs(draw):
    cols = real_columns()
    ci, col = cols[draw(st.integers(0, len(cols) - 1))]
    level = _cell_values(col["level"], [])[0]
    b = draw(st.sampled_from(_cell_values(col["base_video_format"], [int(x) for x in BaseVideoFormats])))
    pcm = PictureCodingModes(draw(st.sampled_from(_cell_values(col["picture_coding_mode"], [0, 1]))))
    profile = Profiles(draw(st.sampled_from(_cell_values(col["profile"], [0, 3]))))
    vp = base_vp(b)
    admissible = True
    for g in ["frame_size", "color_diff", "scan", "frame_rate", "par", "clean_area", "signal_range", "color_spec"]:
        flag = col[FLAG_OF[g]]
        can_true, can_false = True in flag, False in flag
        if can_true and (not can_false or draw(st.integers(0, 2)) == 0):
            ok = customise_from_cells(draw, vp, pcm, col, g)
            if not ok and not can_false:
                admissible = False
    before = dict(vp)
    fixup(vp, pcm)
    if dict(vp) != before:
        admissible = False
    wavelet = draw(st.sampled_from(_cell_values(col["wavelet_index"], [int(w) for w in WaveletFilters])))
    depth = draw(st.sampled_from(_cell_values(col["dwt_depth"], [0, 1, 2, 3, 4])))
    sx = draw(st.sampled_from(_cell_values(col["slices_x"], [1, 1, 2, 3, 4, 5, 8, 16])))
    sy = draw(st.sampled_from(_cell_values(col["slices_y"], [1, 1, 2, 3, 4, 5, 8, 16])))
    same = _own_same_dimensions(vp, pcm, depth, sx, sy)
    if same not in col["slices_have_same_dimensions"]:
        if _is_any(col["slices_x"]) and _is_any(col["slices_y"]):
            sx = sy = 1
        else:
            admissible = False
    if profile == Profiles.low_delay:
        nums = _cell_values(col["slice_bytes_numerator"], [draw(st.integers(1, 64))])
        dens = _cell_values(col["slice_bytes_denominator"], [1])
        if not nums or not dens:
            admissible = False
            pb = sx * sy
        else:
            num, den = draw(st.sampled_from(nums)), draw(st.sampled_from(dens))
            if (num * sx * sy) % den:
                admissible = False
            pb = max(1, (num * sx * sy) // den)
    else:
        if 0 not in col["slice_prefix_bytes"]:
            admissible = False
        pb = None if draw(st.booleans()) else sx * sy * draw(st.integers(4, 64))
    qm = None
    if True in col["custom_quant_matrix"] and (False not in col["custom_quant_matrix"] or draw(st.integers(0, 3)) == 0):
        qm = {lv: {o: 0 for o in orients} for lv, orients in G.custom_matrix_shape(depth, 0).items()}
    elif False not in col["custom_quant_matrix"]:
        admissible = False
    kind = "real_admissible"
    if draw(st.integers(0, 2)) == 0:
        kind = "real_near_miss"
        admissible = None
        # prefer the groups in which this column leaves the encoder a choice (flag cell admits True)
        free = [g for g in GROUPS if g in FLAG_OF and True in col[FLAG_OF[g]]]
        pool = free if free and draw(st.booleans()) else GROUPS
        perturb(draw, vp, pcm, draw(st.sampled_from(pool)))
        fixup(vp, pcm)
    elif not admissible:
        kind = "real_unsure"
        admissible = None
    cf = make_cf(level, profile, pcm, vp, wavelet, depth, sx, sy, pb, qm)
    return dict(cf=cf, kind=kind, base=int(b), admissible=admissible, column=ci)


@st.composite
def cases(draw):
    which = draw(st.sampled_from(["level0"] * 3 + ["real"] * 2))
    c = draw(level0_configs() if which == "level0" else real_level_configs())
    c["sample_seed"] = draw(st.integers(0, 2 ** 31 - 1))
    return c


# ---------------------------------------------------------------------------
# oracle


def header_flags(h):
    sp = h["video_parameters"]
    out = []
    for sub, flag in (("frame_size", "custom_dimensions_flag"), ("color_diff_sampling_format", "custom_color_diff_format_flag"),
                      ("scan_format", "custom_scan_format_flag"), ("frame_rate", "custom_frame_rate_flag"),
                      ("pixel_aspect_ratio", "custom_pixel_aspect_ratio_flag"), ("clean_area", "custom_clean_area_flag"),
                      ("signal_range", "custom_signal_range_flag"), ("color_spec", "custom_color_spec_flag")):
        if sp[sub][flag]:
            name = flag[len("custom_"):-len("_flag")]
            if "index" in sp[sub]:
                name += ":preset" if int(sp[sub]["index"]) != 0 else ":explicit"
            out.append(name)
    cs = sp["color_spec"]
    if cs["custom_color_spec_flag"] and int(cs["index"]) == 0:
        for sub, flag in (("color_primaries", "custom_color_primaries_flag"), ("color_matrix", "custom_color_matrix_flag"),
                          ("transfer_function", "custom_transfer_function_flag")):
            if cs[sub][flag]:
                out.append(flag[len("custom_"):-len("_flag")])
    return out


def serialise_header(header, major_version=None):
    from vc2_conformance import bitstream as B

    if major_version is not None:
        header["parse_parameters"]["major_version"] = major_version
    du = B.DataUnit(parse_info=B.ParseInfo(parse_code=ParseCodes.sequence_header), sequence_header=header)
    eos = B.DataUnit(parse_info=B.ParseInfo(parse_code=ParseCodes.end_of_sequence))
    return S.serialise_stream(B.Stream(sequences=[B.Sequence(data_units=[du, eos])]))


def decode_header_only(blob):
    """parse_info + sequence_header of the validator on a serialised header -> (error, vp, pcm)."""
    from vc2_conformance import decoder as D
    from vc2_conformance.pseudocode.state import State, reset_state
    from vc2_conformance.symbol_re import Matcher

    state = State()
    D.init_io(state, BytesIO(blob))
    reset_state(state)
    state["_generic_sequence_matcher"] = Matcher("sequence_header .* end_of_sequence")
    state["_num_pictures_in_sequence"] = 0
    state["_fragment_slices_remaining"] = 0
    try:
        D.parse_info(state)
        vp = D.sequence_header(state)
    except D.ConformanceError as e:
        return e, None, None
    return None, dict(vp), state["picture_coding_mode"]


def decode_stream(blob):
    v = S.validate(blob)
    if v.error is not None:
        return v.error, None, None
    return None, dict(v.state["video_parameters"]), v.state["picture_coding_mode"]


def check_header(cf, header, tag, first_base, col, data):
    """One evaluation. Returns (accepted, labels, key)."""
    import copy
    from vc2_conformance.constraint_table import allowed_values_for
    from vc2_conformance.decoder import ValueNotAllowedInLevel
    from vc2_conformance.level_constraints import LEVEL_CONSTRAINTS

    level = int(cf["level"])
    want = dict(cf["video_parameters"])
    data = dict(data, header=tag)
    flags = header_flags(header)
    labels = ["flag:" + f for f in flags] + ["flags:%d" % len(flags)]
    nonbest = int(header["base_video_format"]) != first_base
    if nonbest:
        labels.append("nonbest_base")
    own = video_parameters_from_header(header)
    own_pcm = int(header["picture_coding_mode"])
    spare = copy.deepcopy(header)
    header_only = level >= 64
    try:
        blob = serialise_header(header)
    except Exception as e:
        col.fail(col.crash_bucket(e, "serialise"), data, "serialising header %s raised %s: %s" % (tag, type(e).__name__, e))
        return False, labels + ["outcome:crash"], ("crash", tag)
    key = (level, blob)
    decode = decode_header_only if header_only else decode_stream
    try:
        err, got, got_pcm = decode(blob)
        # known finding, tight signature: level 64/65 (low delay, major_version {2}) refuses the minimal version 1
        if (err is not None and level in (64, 65) and isinstance(err, ValueNotAllowedInLevel)
                and getattr(err, "key", None) == "major_version" and getattr(err, "value", None) == 1
                and int(cf["profile"]) == 0):
            allowed = allowed_values_for(LEVEL_CONSTRAINTS, "major_version", {"level": level, "profile": int(cf["profile"])})
            vals = sorted(allowed.iter_values()) if not _is_any(allowed) else []
            col.fail("level-major-version-conflict", data,
                     "header %s (level %d, profile %d) rejected: AUTO major_version %r is not in the level's set %s, and any "
                     "version in that set exceeds the minimal one the validator demands at end of sequence"
                     % (tag, level, int(cf["profile"]), err.value, allowed), sig=SIG_VERSION)
            labels.append("version_conflict")
            if vals:
                blob2 = serialise_header(spare, major_version=vals[0])
                err, got, got_pcm = decode_header_only(blob2)
                labels.append("forced_version")
    except Exception as e:
        col.fail(col.crash_bucket(e, "validate"), data, "validator raised %s: %s on header %s" % (type(e).__name__, e, tag))
        return False, labels + ["outcome:crash"], key
    if err is not None:
        col.fail("rejected:" + type(err).__name__, data,
                 "header %s rejected under level %d: %s: %s" % (tag, level, type(err).__name__, err.explain().strip()[:300]))
        return False, labels + ["outcome:rejected"], key
    if got != want or len(got) != 20:
        diff = {k: (want.get(k), got.get(k)) for k in set(want) | set(got) if want.get(k) != got.get(k)}
        col.fail("video-parameters:" + first_group(diff), data,
                 "header %s decodes to different video parameters (configured, decoded): %r" % (tag, diff))
    if got_pcm != cf["picture_coding_mode"]:
        col.fail("picture-coding-mode", data, "header %s decodes to coding mode %r, configured %r" % (tag, got_pcm, cf["picture_coding_mode"]))
    if {k: int(v) for k, v in want.items()} != {k: int(v) for k, v in own.items()} or own_pcm != int(cf["picture_coding_mode"]):
        diff = {k: (want.get(k), own.get(k)) for k in set(want) | set(own) if int(want.get(k, -1)) != int(own.get(k, -1))}
        col.fail("own-reading:" + first_group(diff), data,
                 "header %s read by the harness' table lookup gives different parameters (configured, read): %r" % (tag, diff))
    return True, labels + ["outcome:accepted"], key


def select_indices(n, seed):
    idx = list(range(min(n, 10)))
    rest = list(range(10, n))
    if rest:
        random.Random(seed).shuffle(rest)
        idx += sorted(rest[:MAX_HEADERS - 10])
    return idx


def check_config(case, col, only=None):
    from vc2_conformance.encoder.exceptions import IncompatibleLevelAndVideoFormatError
    from vc2_conformance.encoder.sequence_header import iter_sequence_headers, make_sequence_header

    cf = case["cf"]
    level = int(cf["level"])
    data = {"config": G.config_json(cf), "kind": case["kind"], "base": case["base"], "admissible": case["admissible"],
            "column": case["column"], "sample_seed": case["sample_seed"]}
    cfg_labels = ["cfg:" + case["kind"], "cfg:level:%d" % level, "cfg:base:%d" % case["base"],
                  "cfg:fields" if cf["picture_coding_mode"] == FIELDS else "cfg:frames"]
    groups = perturbed_groups(cf["video_parameters"], case["base"])
    cfg_labels += ["cfg:perturbed:" + g for g in groups] + ["cfg:perturbed_groups:%d" % len(groups)]
    if case["column"] is not None:
        cfg_labels.append("cfg:column:%d" % case["column"])
    try:
        headers = list(islice(iter_sequence_headers(cf), 2000))
    except Exception as e:
        col.fail(col.crash_bucket(e, "iter"), data, "iter_sequence_headers raised %s: %s" % (type(e).__name__, e))
        col.case(key=("crash", G.config_key(cf)), labels=cfg_labels + ["cfg:outcome:crash"])
        return
    try:
        default = make_sequence_header(cf)
        default_err = None
    except IncompatibleLevelAndVideoFormatError as e:
        default, default_err = None, e
    except BaseException as e:  # AssertionError at level 0: "blame" guard
        col.fail("make-sequence-header-raises:" + type(e).__name__, data,
                 "make_sequence_header raised %s (%s) for a valid configuration at level %d" % (type(e).__name__, e, level))
        default, default_err = None, e
    if not headers:
        if default is not None:
            col.fail("empty-iterator-but-default-exists", data, "iter_sequence_headers is empty but make_sequence_header returns a header")
        elif level == 0:
            col.fail("empty-iterator-level0", data, "no sequence header can be generated for a valid format at level 0")
        elif not isinstance(default_err, IncompatibleLevelAndVideoFormatError):
            pass  # already recorded above
        if case["admissible"]:
            col.fail("admissible-format-refused", data,
                     "configuration built from column %r of the level table (level %d, base format %d) yields no sequence header"
                     % (case["column"], level, case["base"]))
        col.case(key=("empty", G.config_key(cf)), nontrivial=False, labels=cfg_labels + ["cfg:outcome:empty_iterator:incompatible_level"])
        return
    if default is None:
        col.fail("default-missing", data, "iter_sequence_headers yields %d headers but make_sequence_header raised %r" % (len(headers), default_err))
    for l in cfg_labels + ["cfg:outcome:headers", "cfg:headers:%s" % ("<=10" if len(headers) <= 10 else "<=40" if len(headers) <= 40 else ">40")]:
        col.count(l)
    first_base = int(headers[0]["base_video_format"])
    todo = []
    if default is not None:
        todo.append(("default", default))
    todo += [(i, headers[i]) for i in select_indices(len(headers), case["sample_seed"])]
    for tag, h in todo:
        if only is not None and tag != only:
            continue
        ok, labels, key = check_header(cf, h, tag, first_base, col, data)
        nt = ok and (any(l.startswith("flag:") for l in labels) or "nonbest_base" in labels)
        col.case(key=hash64(repr(key)), nontrivial=nt, labels=labels + ["level:%d" % level, "kind:" + case["kind"]],
                 sample=lambda: {"config": data["config"], "header_index": tag, "flags_used": [l for l in labels if l.startswith("flag:")],
                                 "base_video_format_used": int(h["base_video_format"]), "kind": case["kind"]})


def body(case, col):
    check_config(case, col)


def shards(tier):
    return list(range(16 if tier == "quick" else 64))


def run_shard(spec, ctx):
    run_given(cases(), body, ctx, ctx.pick(260, 3000))


def replay(data, col):
    cf = G.config_from_json(data["config"])
    case = dict(cf=cf, kind=data.get("kind", "replay"), base=data.get("base", 0), admissible=data.get("admissible"),
                column=data.get("column"), sample_seed=data.get("sample_seed", 0))
    only = data.get("header")
    check_config(case, col, only=only)
