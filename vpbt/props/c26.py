"""C26 — bitstream viewer never reports an internal error."""

import contextlib
import io
import os
import shutil
import tempfile

from hypothesis import strategies as st

from vpbt.core import run_given
from vpbt.gen import mutate as M
from vpbt.gen import streams as S

ID = "C26"
LEVEL = "exploration"
RULE = (
    "Byte strings from the C02 generator (byte-, bit-field-, field- and unit-level mutations of 34 valid streams from the "
    "current tree, valid streams, random bytes) written to a file and passed to vc2_bitstream_viewer.main() in-process, half with "
    "default options and half with a drawn sample of --offset/--from-offset/--to-offset (incl. negative), --show/--hide "
    "<pseudocode function>, --hide-slice, --show-internal-state, --ignore-parse-info-prefix, --no-status, -v, --num-trailing-bits. "
    "Oracle: return code in {0, 2, 3, 4}; never 255 (internal error), never 1, no exception (incl. SystemExit) escapes main. "
    "Streams declaring oversized pictures trip the size guard on transform_data/fragment_data and count as out of scope. "
    "Non-trivial = the viewer displayed at least one value from inside a slice (qindex printed) or stopped with code 4; distinct "
    "by (bytes, options) hash."
)
ASSUMPTIONS = [
    "The viewer is driven through its main() entry point in-process with stdout/stderr captured; terminal width is whatever the sandbox reports.",
    "Size guard bounds as C02.",
]

SHOWABLE = ["parse_info", "sequence_header", "picture_parse", "fragment_parse", "transform_parameters", "slice",
            "hq_slice", "ld_slice", "padding", "auxiliary_data", "source_parameters", "quant_matrix", "slice_parameters",
            "parse_sequence", "transform_data", "fragment_header", "picture_header", "wavelet_transform"]


@st.composite
def options(draw, nbits):
    if draw(st.booleans()):
        return []
    opts = []
    k = draw(st.sampled_from(["none", "offset", "range", "from", "to"]))
    lim = max(1, nbits)
    if k == "offset":
        opts += ["--offset", str(draw(st.integers(-lim, lim + 16)))]
        c = draw(st.sampled_from(["", "C", "A", "B"]))
        if c == "C":
            opts += ["--context", str(draw(st.integers(0, 200)))]
        elif c == "A":
            opts += ["--after-context", str(draw(st.integers(0, 200)))]
        elif c == "B":
            opts += ["--before-context", str(draw(st.integers(0, 200)))]
    elif k == "range":
        a = draw(st.integers(-lim, lim + 16))
        opts += ["--from-offset", str(a), "--to-offset", draw(st.sampled_from(["", "+"])) + str(draw(st.integers(0, lim + 16)))]
    elif k == "from":
        opts += ["--from-offset", str(draw(st.integers(-lim, lim + 16)))]
    elif k == "to":
        opts += ["--to-offset", str(draw(st.integers(-lim, lim + 16)))]
    for flag in ("--show-internal-state", "--ignore-parse-info-prefix", "--no-status", "-v", "--hide-slice"):
        if draw(st.integers(0, 3)) == 0:
            opts.append(flag)
    if draw(st.integers(0, 3)) == 0:
        opts += ["--show", draw(st.sampled_from(SHOWABLE))]
    if draw(st.integers(0, 3)) == 0:
        opts += ["--hide", draw(st.sampled_from(SHOWABLE))]
    if draw(st.integers(0, 5)) == 0:
        opts += ["--num-trailing-bits", str(draw(st.integers(0, 300)))]
    return opts


@st.composite
def cases(draw):
    data, meta = draw(M.mutated_streams())
    opts = draw(options(len(data) * 8))
    return data, meta, opts


_DIR = [None]


def run_viewer(data, opts, col, showable_ok=True):
    import importlib

    V = importlib.import_module("vc2_conformance.scripts.vc2_bitstream_viewer")
    if _DIR[0] is None or not os.path.isdir(_DIR[0]):
        _DIR[0] = tempfile.mkdtemp(prefix="vpbt-c26-", dir="/tmp")
    path = os.path.join(_DIR[0], "s.vc2")
    with open(path, "wb") as f:
        f.write(data)
    rec = {"hex": data.hex(), "options": opts}
    out, err = io.StringIO(), io.StringIO()
    S.GUARD_TRIPPED[0] = None
    code = None
    try:
        with S.deser_guard(), contextlib.redirect_stdout(out), contextlib.redirect_stderr(err):
            code = V.main([path] + list(opts))
    except SystemExit as e:
        if S.GUARD_TRIPPED[0]:
            return "out_of_scope", False
        if "unrecognised pseudocode function" in err.getvalue():
            return "bad_option", False  # harness named a function the viewer does not know: not a case
        col.fail("systemexit", rec, "viewer main() raised SystemExit(%r): %s" % (e.code, err.getvalue()[-300:]))
        return "systemexit", True
    except BaseException as e:
        if S.GUARD_TRIPPED[0]:
            return "out_of_scope", False
        col.fail(col.crash_bucket(e, "escaped"), rec, "exception escaped viewer main(): %s: %s" % (type(e).__name__, str(e)[:300]))
        return "escaped", True
    if S.GUARD_TRIPPED[0]:
        return "out_of_scope", False
    text = out.getvalue()
    nontrivial = ("qindex" in text) or code == 4
    if code not in (0, 2, 3, 4):
        msg = [l for l in err.getvalue().splitlines() if "error" in l][-1:] or [""]
        bucket = "exit-%r" % code
        if code == 255:
            import re

            m = re.search(r"internal error in bitstream viewer: (\w+)", err.getvalue())
            bucket = "exit-255:%s" % (m.group(1) if m else "?")
        col.fail(bucket, rec, "viewer exited with status %r: %s" % (code, msg[0][:300]))
    return "exit_%r" % code, nontrivial


def body(case, col):
    data, meta, opts = case
    if "discarded" in meta:
        col.count("field_mutant_unserialisable")
    outcome, nt = run_viewer(data, opts, col)
    col.case(key=(data, tuple(opts)), nontrivial=nt, labels=("mode:" + meta["mode"], outcome, "opts" if opts else "default_opts"),
             sample=lambda: {"base": meta["base"], "mode": meta["mode"], "ops": meta["ops"], "options": opts, "outcome": outcome,
                             "bytes": len(data)})


def shards(tier):
    return list(range(16 if tier == "quick" else 64))


def run_shard(spec, ctx):
    try:
        run_given(cases(), body, ctx, ctx.pick(450, 1500))
    finally:
        if _DIR[0]:
            shutil.rmtree(_DIR[0], ignore_errors=True)
            _DIR[0] = None


def replay(data, col):
    blob = bytes.fromhex(data["hex"])
    try:
        outcome, nt = run_viewer(blob, data.get("options", []), col)
        col.case(key=blob, nontrivial=nt, labels=(outcome,))
    finally:
        if _DIR[0]:
            shutil.rmtree(_DIR[0], ignore_errors=True)
            _DIR[0] = None
