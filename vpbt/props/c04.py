"""C04 — lossless and unquantised encodings reconstruct pictures exactly."""

from hypothesis import strategies as st

from vpbt.core import run_given
from vpbt.gen import configs as G
from vpbt.props import _encdec as E

ID = "C04"
LEVEL = "exploration"
RULE = (
    "Two strata per shard: (a) HQ lossless configurations, (b) lossy LD/HQ configurations with a picture_bytes budget of "
    ">= 3x a raw-size estimate so that qindex 0 is normally reached; same configuration/picture generators as C03 "
    "(noise, constants 0/max/mid, checkerboard of extremes, ramps, impulses; depth up to 16 (32 thorough) bits). Oracle: "
    "validator's decoded components == input components element-wise whenever every slice in the encoder's description has "
    "qindex 0 (always required for lossless). Non-trivial = exactness actually compared (all qindex 0), at least one non-constant "
    "component and a transform depth >= 1 in some dimension; distinct by (configuration, picture specs) hash."
)
ASSUMPTIONS = [
    "The qindex of every slice is read from the encoder's own description; lossy cases that ended with a non-zero qindex are counted as not_unquantised and only C03's conformance oracle applies to them.",
]


def shards(tier):
    n = 16 if tier == "quick" else 64
    return [("lossless" if k % 2 == 0 else "lossy_big", k) for k in range(n)]


def body(case, col):
    cf, specs, nums = case
    facts = E.run_case(cf, specs, nums, col, check_format=False, check_exact=True)
    lab = G.labels(cf)
    if facts["rejected"]:
        outcome = "rejected_by_encoder"
    elif facts["unrepresentable"]:
        outcome = "unrepresentable_budget"
    elif facts["all_q0"]:
        outcome = "exactness_compared"
    else:
        outcome = "not_unquantised"
    if cf["lossless"] and outcome == "not_unquantised":
        col.fail("lossless-nonzero-qindex", E.case_json(cf, specs, nums), "lossless encoding used a non-zero qindex")
    nonconst = any(k not in ("const0", "constmax", "constmid", "const") for s in specs for k in s[:3])
    nt = outcome == "exactness_compared" and nonconst and (cf["dwt_depth"] + cf["dwt_depth_ho"] >= 1)
    col.case(key=(G.config_key(cf), tuple(specs)), nontrivial=nt, labels=lab + [outcome],
             sample=lambda: {"config": G.config_json(cf), "pictures": [list(s) for s in specs], "outcome": outcome})


def run_shard(spec, ctx):
    kind, k = spec
    if kind == "lossless":
        strat = E.cases(thorough=ctx.thorough, lossless=True)
    else:
        strat = E.cases(thorough=ctx.thorough, lossless=False, big_budget=True)
    run_given(strat, body, ctx, ctx.pick(150, 320))


def replay(data, col):
    cf, specs, nums = E.case_from_json(data)
    body((cf, specs, nums), col)
