"""C10 — concatenated sequences are validated and decoded independently."""

from hypothesis import strategies as st

from vc2_data_tables import PictureCodingModes

from vpbt.core import run_given
from vpbt.gen import configs as G
from vpbt.gen import corpus as C
from vpbt.gen import mutate as M
from vpbt.gen import pictures as P
from vpbt.gen import streams as S

ID = "C10"
LEVEL = "exploration"
RULE = (
    "Lists of 1-5 member streams: the 34 corpus streams (profiles LD/HQ, versions 1-3, fragments, fields, different formats and "
    "picture numbering), freshly encoded random configurations with drawn picture numbering (incl. wrap at 2^32), and at most one "
    "non-conformant member (bit-field mutation of a corpus stream, major_version one too high, or a stream cut short so that only the end-of-sequence rules -- incomplete fragmented picture, odd number of fields -- fail) at a drawn position. A non-conformant member is only used if, "
    "alone, it fails with an error other than UnexpectedEndOfStream (a member whose parse runs off its own end is not delimited). "
    "Oracle (metamorphic): the concatenation is accepted iff every member alone is accepted; the pictures, video parameters and "
    "coding modes output for the concatenation equal the concatenation of the members' outputs up to and including what the "
    "failing member outputs alone; also each conformant member keeps its verdict and pictures when a conformant prefix and suffix "
    "are attached. Non-trivial = >= 2 members with different configurations (names); distinct by hash of the concatenated bytes."
)
ASSUMPTIONS = ["Member verdicts are the validator's own verdicts on each member alone (C01/C02/C03 judge those)."]

_ALONE = {}


def alone(data):
    """(accepted, error class name or None, pictures) for a member on its own; cached."""
    key = hash(data)
    if key not in _ALONE:
        if len(_ALONE) > 400:
            _ALONE.clear()
        v = S.validate(data, guard=True)  # a mutated member declaring huge pictures is out of scope
        if v.out_of_scope is not None:
            _ALONE[key] = (False, "OutOfScope", v.pictures)
        else:
            _ALONE[key] = (v.error is None, type(v.error).__name__ if v.error is not None else None, v.pictures)
    return _ALONE[key]


_OVER = {}


def overversion(i):
    """Corpus stream i re-serialised with every sequence header declaring major_version + 1 (extended transform
    parameters added with both flags clear when that crosses into version 3)."""
    if i not in _OVER:
        import copy

        from vc2_conformance import bitstream as B

        d = copy.deepcopy(C.descriptions()[i])
        for seq in d["sequences"]:
            old = None
            for du in seq["data_units"]:
                if "sequence_header" in du:
                    pp = du["sequence_header"]["parse_parameters"]
                    old = pp["major_version"]
                    pp["major_version"] = old + 1
                tp = None
                if "picture_parse" in du:
                    tp = du["picture_parse"]["wavelet_transform"]["transform_parameters"]
                elif "fragment_parse" in du and "transform_parameters" in du["fragment_parse"]:
                    tp = du["fragment_parse"]["transform_parameters"]
                if tp is not None and old is not None and old < 3 <= old + 1 and "extended_transform_parameters" not in tp:
                    tp["extended_transform_parameters"] = B.ExtendedTransformParameters(
                        asym_transform_index_flag=False, asym_transform_flag=False)
                    # two more bits: the byte-alignment paddings recorded by the deserialiser no longer fit
                    for holder in (du.get("picture_parse", {}), du.get("picture_parse", {}).get("wavelet_transform", {}),
                                   du.get("fragment_parse", {})):
                        for key in [k for k in holder if isinstance(k, str) and k.startswith("padding")]:
                            del holder[key]
            for du in seq["data_units"]:
                from vc2_conformance.bitstream.vc2_autofill import AUTO

                du["parse_info"].pop("padding", None)  # alignment before each parse_info is recomputed
                du["parse_info"]["next_parse_offset"] = AUTO
                du["parse_info"]["previous_parse_offset"] = AUTO
        _OVER[i] = S.serialise_stream(d)
    return _OVER[i]


_CUT = {}


def cut_short(i):
    """Corpus stream i with the last slice-carrying fragment (else, for field coding, the last picture) of its last
    sequence removed and the offsets recomputed: every data unit is fine, only the *end-of-sequence* bookkeeping
    (incomplete fragmented picture / odd number of fields) makes it non-conformant. None if not applicable."""
    if i not in _CUT:
        import copy

        from vc2_conformance.bitstream.vc2_autofill import AUTO

        d = copy.deepcopy(C.descriptions()[i])
        units = d["sequences"][-1]["data_units"]
        frags = [k for k, du in enumerate(units) if "fragment_parse" in du
                 and du["fragment_parse"]["fragment_header"]["fragment_slice_count"] > 0]
        pics = [k for k, du in enumerate(units) if "picture_parse" in du]
        if frags:
            del units[frags[-1]]
        elif pics and "fields" in C.corpus()[i]["name"]:
            del units[pics[-1]]
        else:
            _CUT[i] = None
            return None
        for seq in d["sequences"]:
            for du in seq["data_units"]:
                du["parse_info"].pop("padding", None)
                du["parse_info"]["next_parse_offset"] = AUTO
                du["parse_info"]["previous_parse_offset"] = AUTO
        _CUT[i] = S.serialise_stream(d)
    return _CUT[i]


@st.composite
def members(draw):
    n = draw(st.integers(1, 5))
    out = []
    # later positions are the interesting ones (leaked state needs predecessors): small draws map to the end
    mutant_at = (n - 1 - draw(st.integers(0, n - 1))) if draw(st.integers(0, 2)) == 0 else None
    corp = C.corpus()
    for k in range(n):
        if k == mutant_at and draw(st.integers(0, 2)) == 0:
            # a member whose only fault is found when its sequence ends
            cands = [j for j in range(len(corp)) if cut_short(j) is not None]
            i = cands[draw(st.integers(0, len(cands) - 1))]
            out.append(("cutshort:" + corp[i]["name"], cut_short(i), ["last fragment / field removed"]))
        elif k == mutant_at and draw(st.booleans()):
            # a member that is non-conformant by ONE sequence-level rule whose bookkeeping must not leak between
            # sequences: major_version one higher than its own features need
            i = draw(st.integers(0, len(corp) - 1))
            out.append(("overversion:" + corp[i]["name"], overversion(i), ["major_version+1"]))
        elif k == mutant_at:
            i = draw(st.integers(0, len(corp) - 1))
            data, ops = draw(M.bitfield_mutate(i))
            out.append(("mutant:" + corp[i]["name"], data, ops))
        elif draw(st.integers(0, 4)) == 0:
            cf = draw(G.codec_features(max_size=12, max_depth_bits=10, max_dwt=2, max_dwt_ho=1, max_slices=3))
            fields = cf["picture_coding_mode"] == PictureCodingModes.pictures_are_fields
            specs = draw(P.picture_specs(1, 2, even=fields))
            nums = draw(P.picture_numbers(len(specs), fields))
            out.append(("random", (cf, specs, nums), None))
        else:
            i = draw(st.integers(0, len(corp) - 1))
            out.append(("corpus:" + corp[i]["name"], corp[i]["data"], None))
    return out


def realise(ms):
    from vc2_conformance.encoder.exceptions import UnsatisfiableCodecFeaturesError

    out = []
    for name, payload, ops in ms:
        if name == "random":
            cf, specs, nums = payload
            try:
                data, _ = S.encode(cf, P.build_pictures(cf, specs, nums))
            except UnsatisfiableCodecFeaturesError:
                continue
            except Exception:
                continue  # encoder problems are C03's subject
            out.append(("random:" + G.config_key(cf)[:40], data))
        else:
            out.append((name, payload))
    return out


def pictures_equal(a, b):
    if len(a) != len(b):
        return False
    for (pa, va, ca), (pb, vb, cb) in zip(a, b):
        if pa != pb or va != vb or ca != cb:
            return False
    return True


def check(real, col):
    rec = {"members": [{"name": n, "hex": d.hex()} for n, d in real]}
    facts = {"outcome": "judged", "class_changed": False}
    info = []
    try:
        for name, data in real:
            info.append(alone(data))
    except Exception as e:
        facts["outcome"] = "member_crashes_validator"  # C02's subject
        return facts
    # a failing member must be delimited
    for (ok, cls, pics) in info:
        if not ok and cls == "UnexpectedEndOfStream":
            facts["outcome"] = "undelimited_member"
            return facts
        if cls == "OutOfScope":
            facts["outcome"] = "out_of_scope_member"
            return facts
    first_bad = next((k for k, (ok, _, _) in enumerate(info) if not ok), None)
    blob = b"".join(d for _, d in real)
    try:
        v = S.validate(blob, guard=True)
        if v.out_of_scope is not None:
            facts["outcome"] = "out_of_scope_member"
            return facts
    except Exception as e:
        col.fail(col.crash_bucket(e, "concat"), rec, "validator raised %s on a concatenation of individually judged members" % type(e).__name__)
        return facts
    want_accept = first_bad is None
    if (v.error is None) != want_accept:
        if want_accept:
            col.fail("concat-rejected:" + type(v.error).__name__, rec,
                     "every member is accepted alone but the concatenation raised %s: %s" % (type(v.error).__name__, v.error.explain().strip().splitlines()[0][:200]))
        else:
            col.fail("concat-accepted", rec, "member %d alone raises %s but the concatenation is accepted" % (first_bad, info[first_bad][1]))
        return facts
    upto = len(real) if first_bad is None else first_bad + 1
    want_pics = [p for k in range(upto) for p in info[k][2]]
    if not pictures_equal(v.pictures, want_pics):
        col.fail("pictures-differ", rec, "concatenation output %d pictures, members alone give %d (or contents differ)" % (len(v.pictures), len(want_pics)))
    if first_bad is not None and type(v.error).__name__ != info[first_bad][1]:
        facts["class_changed"] = True
    # prefix / suffix removal on conformant members
    if first_bad is None and len(real) >= 3:
        mid = b"".join(d for _, d in real[1:-1])
        vm = S.validate(mid, guard=True)
        if vm.error is not None:
            col.fail("middle-rejected", rec, "removing a conformant prefix and suffix changed the verdict: %s" % type(vm.error).__name__)
        elif not pictures_equal(vm.pictures, [p for k in range(1, len(real) - 1) for p in info[k][2]]):
            col.fail("middle-pictures-differ", rec, "pictures of the middle members changed when neighbours were removed")
    facts["first_bad"] = first_bad
    return facts


def body(ms, col):
    real = realise(ms)
    if not real:
        col.count("empty_case")
        return
    facts = check(real, col)
    names = [n for n, _ in real]
    lab = [facts["outcome"], "members:%d" % len(real)]
    if any(n.startswith("mutant") for n in names):
        lab.append("has_mutant")
    if any(n.startswith("overversion") for n in names):
        lab.append("has_overversion_member")
    if any(n.startswith("cutshort") for n in names):
        lab.append("has_cutshort_member")
    if facts.get("first_bad") is not None:
        lab.append("nonconformant_member_at:%d" % facts["first_bad"])
    if facts["class_changed"]:
        lab.append("error_class_changed")
    if any(n.startswith("random") for n in names):
        lab.append("has_random_config")
    col.case(key=b"".join(d for _, d in real), nontrivial=facts["outcome"] == "judged" and len(set(names)) >= 2, labels=lab,
             sample=lambda: {"members": names, "ops": [o for _, _, o in ms if o], "first_bad": facts.get("first_bad")})


def shards(tier):
    return list(range(16 if tier == "quick" else 64))


def run_shard(spec, ctx):
    run_given(members(), body, ctx, ctx.pick(120, 470))


def replay(data, col):
    real = [(m["name"], bytes.fromhex(m["hex"])) for m in data["members"]]
    facts = check(real, col)
    col.case(key=b"".join(d for _, d in real), nontrivial=True, labels=(facts["outcome"],))
