"""C24 — test case generation is deterministic and schedule-independent."""

import glob
import hashlib
import os
import shutil
import subprocess
import sys
import tempfile

from hypothesis import strategies as st

from vpbt import core
from vpbt.core import run_given

ID = "C24"
LEVEL = "exploration"
RULE = (
    "A case = a codec-features CSV with 3 tiny configurations dealt from seeded permutations of 15 variants (every variant in every run, ordered pairs varying with the seed) of the suite's minimal 8x4 format (metadata resembling SD/UHD/D-cinema base formats, HQ lossy, "
    "HQ lossless, LD, fragments 1 and 3, fields, 4:2:0, LeGall depth 2, asymmetric, explicit quantisation matrices) + a generated schedule of the worker commands "
    "printed by the real `vc2-test-case-generator --parallel`: a drawn permutation split into drawn batches, batches run one after "
    "another, commands inside a batch concurrently as separate processes, each process with a drawn PYTHONHASHSEED (0, 1, or a random "
    "32-bit value). Workers run the unmodified worker.main() (pickled partial path) with only the natural-picture list swapped for "
    "the suite's 16x16 pictures. Oracle: relative path -> SHA-256 of the whole output tree equals that of the serial in-process "
    "CLI run under PYTHONHASHSEED=0 and of a second serial run under another hash seed; history invariant: replaying the commands "
    "one at a time into one directory, no command modifies or re-creates a file written by another and the union is the serial "
    "tree. Evaluations count (case, tree comparison) pairs; non-trivial = schedule with a batch of >= 4 concurrent commands and a "
    "non-identity permutation; distinct by (configurations, schedule) hash."
)
ASSUMPTIONS = [
    "The harness owns order, batching and hash seeds; the OS owns the interleaving inside a batch. Disjoint write sets + makedirs(exist_ok) are what extend the result to arbitrary interleavings; a race inside one worker's own writes would not be found.",
]

BASE = None

VARIANTS = {
    "hq": {},
    "lossless": {"lossless": "TRUE", "picture_bytes": ""},
    "ld": {"profile": "low_delay", "picture_bytes": "16"},
    "frag1": {"fragment_slice_count": "1"},
    "frag3": {"fragment_slice_count": "3", "slices_x": "2", "slices_y": "2", "picture_bytes": "40"},
    "fields": {"picture_coding_mode": "pictures_are_fields", "frame_height": "8", "clean_height": "8"},
    "c420": {"color_diff_format_index": "color_4_2_0"},
    "legall2": {"wavelet_index": "le_gall_5_3", "wavelet_index_ho": "le_gall_5_3", "dwt_depth": "2", "picture_bytes": "40"},
    # same tiny picture, but metadata close to other base video formats: the order in which configurations are
    # processed inside one (serial) process must not influence e.g. the base video format chosen for the next one
    "sd525meta": {"frame_rate_numer": "30000", "frame_rate_denom": "1001", "pixel_aspect_ratio_numer": "10",
                  "pixel_aspect_ratio_denom": "11", "color_primaries_index": "sdtv_525", "color_matrix_index": "sdtv",
                  "source_sampling": "interlaced", "luma_offset": "16", "luma_excursion": "219", "color_diff_excursion": "224"},
    "uhdmeta": {"frame_rate_numer": "60", "frame_rate_denom": "1", "color_primaries_index": "uhdtv", "color_matrix_index": "uhdtv",
                "luma_offset": "64", "luma_excursion": "876", "color_diff_offset": "512", "color_diff_excursion": "896"},
    "dcinemameta": {"frame_rate_numer": "24", "frame_rate_denom": "1", "color_primaries_index": "d_cinema",
                    "color_matrix_index": "reversible", "transfer_function_index": "d_cinema", "luma_excursion": "4095",
                    "color_diff_offset": "2048", "color_diff_excursion": "4095"},
    # explicit quantisation matrices (one where a default matrix exists too, one where none exists): generators which
    # substitute their own matrix must not leak it to the generators that run after them in the serial process
    "customqm": {"quantization_matrix": "3 1 2 0"},
    "customqm2": {"wavelet_index": "le_gall_5_3", "wavelet_index_ho": "le_gall_5_3", "dwt_depth": "2", "picture_bytes": "40",
                  "quantization_matrix": "5 3 3 1 2 2 0"},
    "asymqm": {"wavelet_index_ho": "le_gall_5_3", "dwt_depth_ho": "1", "quantization_matrix": "2 1 3 1 0"},
    "ldfields": {"profile": "low_delay", "picture_bytes": "12", "picture_coding_mode": "pictures_are_fields", "frame_height": "8",
                 "clean_height": "8"},
}


def base_rows():
    """[(key, value)] of the 'minimal' column of tests/sample_codec_features.csv"""
    import csv

    global BASE
    if BASE is None:
        rows = []
        with open(os.path.join(core.REPO, "tests", "sample_codec_features.csv"), encoding="utf-8-sig") as f:
            for row in csv.reader(f):
                if row and row[0].strip() and not row[0].strip().startswith("#"):
                    rows.append((row[0].strip(), row[2].strip() if len(row) > 2 else ""))
        BASE = rows
    return BASE


def make_csv(names):
    lines = []
    for key, val in base_rows():
        cells = [key]
        for n in names:
            v = VARIANTS[n].get(key, val)
            if key == "name":
                v = n
            cells.append(v)
        lines.append(",".join(cells))
    return "\n".join(lines) + "\n"


def pictures_swap_code():
    paths = [os.path.join(core.REPO, "tests", "test_images", n) for n in ("square.raw", "wide.raw", "tall.raw")]
    return "import sys, vc2_conformance_data as d; d.NATURAL_PICTURES_FILENAMES[:] = %r\n" % (paths,)


def run_py(code, args, hashseed, cwd, capture=False):
    env = dict(os.environ, PYTHONHASHSEED=str(hashseed), PYTHONPATH=core.REPO, PYTHONDONTWRITEBYTECODE="1")
    return subprocess.Popen([sys.executable, "-W", "ignore", "-c", pictures_swap_code() + code] + list(args), env=env, cwd=cwd,
                            stdout=subprocess.PIPE if capture else subprocess.DEVNULL, stderr=subprocess.PIPE, text=True)


CLI = "from vc2_conformance.scripts.vc2_test_case_generator.cli import main; sys.exit(main(sys.argv[1:]))"
ALONE = (
    "import os, json\n"
    "from vc2_conformance.scripts.vc2_test_case_generator.worker import decode\n"
    "codes = open(sys.argv[1]).read().split()\n"
    "root = sys.argv[2]\n"
    "seen = {}\n"
    "for n, code in enumerate(codes):\n"
    "    decode(code)()\n"
    "    now = {}\n"
    "    for dp, _, files in os.walk(root):\n"
    "        for name in files:\n"
    "            pth = os.path.join(dp, name); s = os.stat(pth)\n"
    "            now[pth] = (s.st_mtime_ns, s.st_size, s.st_ino)\n"
    "    bad = [k for k, v in seen.items() if now.get(k) != v]\n"
    "    if bad: print('OVERLAP command', n, bad[:3])\n"
    "    seen = now\n"
)
WORKER = "from vc2_conformance.scripts.vc2_test_case_generator.worker import main; main(sys.argv[1:])"


def tree_hash(root):
    out = {}
    for dirpath, _, files in os.walk(root):
        for name in files:
            p = os.path.join(dirpath, name)
            with open(p, "rb") as f:
                out[os.path.relpath(p, root)] = hashlib.sha256(f.read()).hexdigest()
    return out


def diff_trees(a, b):
    only_a = sorted(set(a) - set(b))
    only_b = sorted(set(b) - set(a))
    changed = sorted(k for k in set(a) & set(b) if a[k] != b[k])
    return only_a, only_b, changed


def make_case(rnd, names=None):
    """A case drawn from a random.Random seeded by ctx.seed (Hypothesis' first example is always the
    simplest one, which would make every single-example shard identical). names: the configurations, in CSV order
    (run_shard deals them from seeded permutations of all variants, so that a run covers every variant and as many
    *ordered pairs* as it has room for: state leaking from one configuration to a later one inside the serial
    process shows only for particular pairs)."""
    if names is None:
        names = rnd.sample(sorted(VARIANTS), rnd.choice([1, 2, 3]))
    return dict(names=list(names), perm_seed=rnd.getrandbits(32),
                batch_sizes=[rnd.choice([4, 6, 8])] + [rnd.choice([1, 2, 4, 4, 6, 8]) for _ in range(rnd.randint(0, 11))],
                seed_kinds=[rnd.choice([0, 1, 2, 3]) for _ in range(8)], serial_seed2=rnd.randint(1, 2 ** 32 - 1))


def dealt_names(base_seed, index, size=3):
    """configurations of the index-th case of a run: consecutive slices of seeded permutations of all variants"""
    import random

    per_round = len(VARIANTS) // size
    perm = sorted(VARIANTS)
    random.Random(base_seed * 100003 + index // per_round).shuffle(perm)
    k = (index % per_round) * size
    return perm[k:k + size]


def check(case, col):
    import random

    rec = dict(case)
    names = case["names"]
    d = tempfile.mkdtemp(prefix="vpbt-c24-", dir="/tmp")
    facts = {"outcome": "judged", "big_batch": False, "ncommands": 0}
    started = []
    try:
        csv_path = os.path.join(d, "features.csv")
        with open(csv_path, "w") as f:
            f.write(make_csv(names))
        # serial references (two hash seeds) and the --parallel listings: independent processes, started together
        refs = []
        serial = [(run_py(CLI, [csv_path, "-o", os.path.join(d, "serial%d" % k)], hs, d), os.path.join(d, "serial%d" % k))
                  for k, hs in enumerate((0, case["serial_seed2"]))]
        rnd = random.Random(case["perm_seed"])
        out = os.path.join(d, "sched")
        out2 = os.path.join(d, "alone")
        listing1 = run_py(CLI, [csv_path, "-o", out, "--parallel"], rnd.choice([0, 1, rnd.getrandbits(32)]), d, capture=True)
        listing2 = run_py(CLI, [csv_path, "-o", out2, "--parallel"], 0, d, capture=True)
        started.extend([serial[0][0], serial[1][0], listing1, listing2])
        for p, sout in serial:
            _, err = p.communicate()
            if p.returncode != 0:
                col.fail("serial-run-failed", rec, "serial CLI run failed (exit %r): %s" % (p.returncode, err.strip()[-400:]))
                return facts
            refs.append(tree_hash(sout))
        if not refs[0]:
            col.fail("serial-run-empty", rec, "serial run wrote no files")
            return facts
        oa, ob, ch = diff_trees(refs[0], refs[1])
        col.evaluations += 1
        if oa or ob or ch:
            col.fail("serial-runs-differ", rec, "two serial runs under different PYTHONHASHSEED differ: only-first %r only-second %r changed %r" % (oa[:3], ob[:3], ch[:3]))
        # scheduled run
        p = listing1
        stdout, err = p.communicate()
        if p.returncode != 0:
            col.fail("parallel-listing-failed", rec, "--parallel run failed: %s" % err.strip()[-400:])
            return facts
        cmds = [l.split(None, 1)[1] for l in stdout.splitlines() if l.startswith("vc2-test-case-generator-worker ")]
        facts["ncommands"] = len(cmds)
        if not cmds:
            col.fail("no-commands", rec, "--parallel printed no worker commands")
            return facts
        stdout2, err = listing2.communicate()
        cmds2 = [l.split(None, 1)[1] for l in stdout2.splitlines() if l.startswith("vc2-test-case-generator-worker ")]
        listing = os.path.join(d, "cmds2.txt")
        with open(listing, "w") as f:
            f.write("\n".join(reversed(cmds2)))
        alone = run_py(ALONE, [listing, out2], 0, d, capture=True)  # runs alongside the scheduled batches, own directory
        started.append(alone)
        order = list(range(len(cmds)))
        rnd.shuffle(order)
        identity = order == sorted(order)
        i = 0
        b = 0
        batches = []
        while i < len(order):
            size = case["batch_sizes"][b % len(case["batch_sizes"])]
            batches.append(order[i:i + size])
            i += size
            b += 1
        facts["big_batch"] = any(len(x) >= 4 for x in batches) and not identity
        for batch in batches:
            procs = []
            for ci in batch:
                kind = case["seed_kinds"][ci % len(case["seed_kinds"])]
                hs = {0: 0, 1: 1}.get(kind, rnd.getrandbits(32))
                procs.append((ci, run_py(WORKER, [cmds[ci]], hs, d)))
            for ci, pr in procs:
                _, err = pr.communicate()
                if pr.returncode != 0:
                    col.fail("worker-failed", rec, "worker command %d failed (exit %r): %s" % (ci, pr.returncode, err.strip()[-300:]))
                    return facts
        got = tree_hash(out)
        oa, ob, ch = diff_trees(refs[0], got)
        col.evaluations += 1
        if oa or ob or ch:
            col.fail("scheduled-tree-differs", rec, "scheduled worker run differs from the serial run: missing %r extra %r changed %r" % (oa[:3], ob[:3], ch[:3]))
        # history invariant: one at a time (reverse order), disjoint write sets. All commands are decoded and
        # executed by ONE helper process (the pickled-partial path of worker.decode), which snapshots the tree
        # between commands; this avoids one interpreter start-up per command.
        stdout, err = alone.communicate()
        if alone.returncode != 0:
            col.fail("worker-failed", rec, "one-at-a-time replay failed: %s" % err.strip()[-300:])
            return facts
        overlaps = [l for l in stdout.splitlines() if l.startswith("OVERLAP ")]
        if overlaps:
            col.fail("write-sets-overlap", rec, "a worker command rewrote files of another command: %s" % overlaps[0][:300])
        col.evaluations += 1
        oa, ob, ch = diff_trees(refs[0], tree_hash(out2))
        if oa or ob or ch:
            col.fail("one-at-a-time-tree-differs", rec, "running the commands one at a time (reverse order) differs from the serial run: missing %r extra %r changed %r" % (oa[:3], ob[:3], ch[:3]))
        facts["files"] = len(refs[0])
        return facts
    finally:
        for q in started:
            if q.poll() is None:
                q.kill()
                q.communicate()
        shutil.rmtree(d, ignore_errors=True)


def body(case, col):
    facts = check(case, col)
    col.evaluations -= 1  # col.case below adds one
    col.case(key=repr(case), nontrivial=facts["outcome"] == "judged" and facts["big_batch"],
             labels=["cfg:" + n for n in case["names"]] + ["configs:%d" % len(case["names"])] + (["big_concurrent_batch"] if facts["big_batch"] else []),
             sample=lambda: dict(case, commands=facts["ncommands"], files=facts.get("files")))
    col.count("worker_commands", facts["ncommands"])


def shards(tier):
    return list(range(5 if tier == "quick" else 16))


def run_shard(spec, ctx):
    import random

    rnd = random.Random(ctx.seed)
    per = ctx.pick(1, 3)
    for k in range(per):
        body(make_case(rnd, dealt_names(ctx.base_seed, ctx.shard_index * per + k)), ctx.col)


def replay(data, col):
    body(data, col)
