"""C07 — automatic field filling preserves explicit values and computes derived ones."""

import copy
from io import BytesIO

from bitarray import bitarray
from hypothesis import strategies as st

from vpbt.core import run_given
from vpbt.gen import corpus as C
from vpbt.gen import pictures as P
from vpbt.gen import streams as S

ID = "C07"
LEVEL = "exploration"
RULE = (
    "Stream descriptions of 1-3 sequences: a sequence header (optionally carrying version-raising presets: frame rate index "
    "> 11, signal range index > 4, colour spec index > 4, custom colour spec with primaries/matrix/transfer index > 3), then up to "
    "~10 units drawn from whole pictures or fragmented pictures taken from the encoder for 8 tiny configurations (LD/HQ, "
    "fragments 1/2/3, asymmetric transform, different horizontal wavelet, fields), padding/auxiliary units with 0-40 payload "
    "bytes and repeated headers, ending in end-of-sequence; extended transform parameters also in redundant encodings (flag set, value equal to the assumed one; same horizontal wavelet with the index flag set). Every auto-capable field (next/previous parse offset per unit, picture "
    "number per picture/fragment, major_version per header) is independently explicit (drawn value), AUTO, or deleted; "
    "geometry-neutral fields (parse_info_prefix, minor_version, level, profile, padding bytes...) are randomly deleted. Only "
    "descriptions that autofill_and_serialise_stream serialises are judged. Oracle (autofill model): deserialise the output; every "
    "explicit scalar/bytes/list value of the input is unchanged; deleted fields equal vc2_default_values; AUTO offsets equal the byte "
    "distances measured in the output (13+payload for padding/aux, 0 for the last/first unit of a sequence); AUTO picture numbers "
    "follow the previous picture (+1 mod 2^32, restart at 0, fragments with slices repeat); AUTO major_version equals the harness' "
    "own minimum-version table; extended transform parameters are dropped exactly when an AUTO header resolves below 3; an "
    "all-AUTO description in a valid order is accepted by the validator; an unserialisable description must stay unserialisable when its AUTO versions are replaced by the harness' minimum version. Non-trivial = at least one explicit and one AUTO field of "
    "different kinds and >= 2 picture-bearing units; distinct by description hash."
)
ASSUMPTIONS = [
    "Output positions are obtained with the repository's Deserialiser (its agreement with the Serialiser is C06's subject).",
    "Defaults are compared with bitstream.vc2_default_values, the table the documentation is generated from.",
]

CFG_NAMES = ["hq_min", "ld_min", "hq_frag1", "hq_frag3", "ld_frag2", "hq_asym", "hq_asym_index", "hq_asym_index_ho_default", "hq_fields"]
_UNITS = {}


def cfg_units(name):
    """(sequence header unit, [picture groups]) for a named corpus configuration (fresh deep copies)."""
    if name not in _UNITS:
        from vc2_conformance.encoder import make_sequence

        cf = dict(C.configs())[name]
        specs = [("noise", "ramp", "noise", 21), ("checker", "noise", "constmid", 22), ("ramp", "noise", "noise", 23),
                 ("noise", "noise", "edges", 24)]
        seq = make_sequence(cf, P.build_pictures(cf, specs, None))
        sh = seq["data_units"][0]
        groups = []
        for du in seq["data_units"][1:-1]:
            if "picture_parse" in du:
                groups.append([du])
            elif du["fragment_parse"]["fragment_header"]["fragment_slice_count"] == 0:
                groups.append([du])
            else:
                groups[-1].append(du)
        _UNITS[name] = (sh, groups)
    sh, groups = _UNITS[name]
    return copy.deepcopy(sh), copy.deepcopy(groups)


# ---- harness' own minimum version table (SMPTE ST 2042-1 11.2.2), written out independently
def model_min_version(units, defaults):
    from vc2_conformance import bitstream as B

    v = 1
    for du in units:
        pc = int(du.get("parse_info", {}).get("parse_code", 0x10))
        if pc in (0xCC, 0xEC):
            v = max(v, 3)
        if pc == 0x00:
            sh = du.get("sequence_header", {})
            profile = sh.get("parse_parameters", {}).get("profile", 3)
            if int(profile) == 3:
                v = max(v, 2)
            sp = sh.get("video_parameters", {})
            fr = sp.get("frame_rate", {})
            if fr.get("custom_frame_rate_flag", False) and int(fr.get("index", 3)) > 11:
                v = max(v, 3)
            sr = sp.get("signal_range", {})
            if sr.get("custom_signal_range_flag", False) and int(sr.get("index", 1)) > 4:
                v = max(v, 3)
            cs = sp.get("color_spec", {})
            if cs.get("custom_color_spec_flag", False):
                idx = int(cs.get("index", 3))
                if idx > 4:
                    v = max(v, 3)
                if idx == 0:
                    for sub, flag in (("color_primaries", "custom_color_primaries_flag"), ("color_matrix", "custom_color_matrix_flag"),
                                      ("transfer_function", "custom_transfer_function_flag")):
                        d = cs.get(sub, {})
                        if d.get(flag, False) and int(d.get("index", 0)) > 3:
                            v = max(v, 3)
        tp = None
        if pc in (0xC8, 0xE8):
            tp = du.get("picture_parse", {}).get("wavelet_transform", {}).get("transform_parameters", {})
        elif pc in (0xCC, 0xEC) and du.get("fragment_parse", {}).get("fragment_header", {}).get("fragment_slice_count", 0) == 0:
            tp = du.get("fragment_parse", {}).get("transform_parameters", {})
        if tp is not None:
            etp = tp.get("extended_transform_parameters", {})
            wi = int(tp.get("wavelet_index", 4))
            if etp.get("asym_transform_index_flag", False) and int(etp.get("wavelet_index_ho", 4)) != wi:
                v = max(v, 3)
            if etp.get("asym_transform_flag", False) and etp.get("dwt_depth_ho", 0) != 0:
                v = max(v, 3)
    return v


@st.composite
def tri(draw, explicit):
    """explicit value / AUTO / deleted"""
    k = draw(st.sampled_from(["explicit", "auto", "deleted"]))
    return (k, draw(explicit) if k == "explicit" else None)


@st.composite
def descriptions(draw):
    """Returns a plan: JSON-able recipe from which build() makes the description deterministically."""
    nseq = draw(st.sampled_from([1, 1, 2, 3]))
    plan = []
    for _ in range(nseq):
        name = draw(st.sampled_from(CFG_NAMES))
        presets = draw(st.sampled_from([None, None, "frame_rate", "signal_range", "color_spec", "primaries", "matrix", "transfer"]))
        units = []
        npic = draw(st.integers(0, 4))
        for p in range(npic):
            units.append(("PICGROUP", p))
            if draw(st.integers(0, 2)) == 0:
                k = draw(st.sampled_from(["PAD", "AUX", "SH"]))
                units.append((k, draw(st.integers(0, 40))))
        if draw(st.integers(0, 2)) == 0:
            units.insert(draw(st.integers(0, len(units))), (draw(st.sampled_from(["PAD", "AUX"])), draw(st.integers(0, 40))))
        all_auto = draw(st.integers(0, 4)) == 0
        plan.append(dict(name=name, presets=presets, units=units, all_auto=all_auto,
                         seed=draw(st.integers(0, 2 ** 32 - 1)),
                         explicit_version=draw(st.sampled_from([None, None, None, 1, 2, 3])),
                         delete_misc=draw(st.booleans())))
    return plan


def build(plan):
    """plan -> (Stream description, facts)  facts: per (seq, unit) expected explicit/auto decisions."""
    import random

    from vc2_conformance import bitstream as B
    from vc2_conformance.bitstream.vc2_autofill import AUTO
    from vc2_data_tables import (ParseCodes, PresetColorMatrices, PresetColorPrimaries, PresetColorSpecs, PresetFrameRates,
                                 PresetSignalRanges, PresetTransferFunctions)

    stream = B.Stream(sequences=[])
    kinds_used = set()
    npicture_units = 0
    for sp in plan:
        rnd = random.Random(sp["seed"])
        sh, groups = cfg_units(sp["name"])
        vpar = sh["sequence_header"]["video_parameters"]
        pr = sp["presets"]
        if pr == "frame_rate":
            vpar["frame_rate"] = B.FrameRate(custom_frame_rate_flag=True, index=PresetFrameRates(rnd.choice([3, 11, 12, 14, 16])))
        elif pr == "signal_range":
            vpar["signal_range"] = B.SignalRange(custom_signal_range_flag=True, index=PresetSignalRanges(rnd.choice([1, 4, 5, 8])))
        elif pr == "color_spec":
            vpar["color_spec"] = B.ColorSpec(custom_color_spec_flag=True, index=PresetColorSpecs(rnd.choice([1, 4, 5, 7])))
        elif pr in ("primaries", "matrix", "transfer"):
            cs = B.ColorSpec(custom_color_spec_flag=True, index=PresetColorSpecs(0),
                             color_primaries=B.ColorPrimaries(custom_color_primaries_flag=False),
                             color_matrix=B.ColorMatrix(custom_color_matrix_flag=False),
                             transfer_function=B.TransferFunction(custom_transfer_function_flag=False))
            if pr == "primaries":
                cs["color_primaries"] = B.ColorPrimaries(custom_color_primaries_flag=True, index=PresetColorPrimaries(rnd.choice([1, 3, 4])))
            elif pr == "matrix":
                cs["color_matrix"] = B.ColorMatrix(custom_color_matrix_flag=True, index=PresetColorMatrices(rnd.choice([1, 3, 4])))
            else:
                cs["transfer_function"] = B.TransferFunction(custom_transfer_function_flag=True, index=PresetTransferFunctions(rnd.choice([1, 3, 4, 5])))
            vpar["color_spec"] = cs
        units = [copy.deepcopy(sh)]
        for u in sp["units"]:
            if u[0] == "PICGROUP":
                g = groups[u[1] % len(groups)]
                units.extend(copy.deepcopy(g))
            elif u[0] == "SH":
                units.append(copy.deepcopy(sh))
            elif u[0] == "PAD":
                units.append(B.DataUnit(parse_info=B.ParseInfo(parse_code=ParseCodes.padding_data),
                                        padding=B.Padding(bytes=bytes(rnd.getrandbits(8) for _ in range(u[1])))))
            else:
                units.append(B.DataUnit(parse_info=B.ParseInfo(parse_code=ParseCodes.auxiliary_data),
                                        auxiliary_data=B.AuxiliaryData(bytes=bytes(rnd.getrandbits(8) for _ in range(u[1])))))
        units.append(B.DataUnit(parse_info=B.ParseInfo(parse_code=ParseCodes.end_of_sequence)))

        def choose(explicit_value):
            if sp["all_auto"]:
                return rnd.choice(["auto", "deleted"]), None
            k = rnd.choice(["explicit", "auto", "deleted"])
            return k, (explicit_value() if k == "explicit" else None)

        # ---- major_version: one decision per sequence (explicit value applied to every header) or per header AUTO
        ev = None if sp["all_auto"] else sp["explicit_version"]
        # one decision per sequence (every picture must agree, or another picture still implies version 3)
        same_index_ho = rnd.random() < 0.4
        for du in units:
            pi = du["parse_info"]
            pc = pi["parse_code"]
            # offsets
            for field in ("next_parse_offset", "previous_parse_offset"):
                if field == "next_parse_offset" and pc in (ParseCodes.padding_data, ParseCodes.auxiliary_data):
                    payload = len(du.get("padding", du.get("auxiliary_data"))["bytes"])
                    k, val = choose(lambda: 13 + payload + rnd.choice([0, 0, 1, 5]))
                else:
                    k, val = choose(lambda: rnd.choice([0, 13, 14, 100, rnd.getrandbits(32)]))
                kinds_used.add((field, k))
                if k == "explicit":
                    pi[field] = val
                elif k == "auto":
                    pi[field] = AUTO
                else:
                    pi.pop(field, None)
            # picture numbers
            hdr = None
            if "picture_parse" in du:
                hdr = du["picture_parse"]["picture_header"]
                npicture_units += 1
            elif "fragment_parse" in du:
                hdr = du["fragment_parse"]["fragment_header"]
                npicture_units += 1
            if hdr is not None:
                k, val = choose(lambda: rnd.choice([0, 1, 7, 2 ** 32 - 1, 2 ** 32 - 2, rnd.getrandbits(32)]))
                kinds_used.add(("picture_number", k))
                if k == "explicit":
                    hdr["picture_number"] = val
                elif k == "auto":
                    hdr["picture_number"] = AUTO
                else:
                    hdr.pop("picture_number", None)
            if "sequence_header" in du:
                pp = du["sequence_header"]["parse_parameters"]
                if ev is not None:
                    pp["major_version"] = ev
                    kinds_used.add(("major_version", "explicit"))
                else:
                    k = rnd.choice(["auto", "deleted"])
                    kinds_used.add(("major_version", k))
                    if k == "auto":
                        pp["major_version"] = AUTO
                    else:
                        pp.pop("major_version", None)
                if sp["delete_misc"]:
                    for f in ("minor_version", "level"):
                        if rnd.random() < 0.5:
                            pp.pop(f, None)
                    if int(pp.get("profile", 3)) == 3 and rnd.random() < 0.5:
                        pp.pop("profile", None)
            if sp["delete_misc"]:
                # extended transform parameters whose value is the documented default may be left out
                tpx = None
                if "picture_parse" in du:
                    tpx = du["picture_parse"]["wavelet_transform"]["transform_parameters"]
                elif "fragment_parse" in du and "transform_parameters" in du["fragment_parse"]:
                    tpx = du["fragment_parse"]["transform_parameters"]
                etpx = tpx.get("extended_transform_parameters") if tpx is not None else None
                if etpx is not None:
                    # redundant but legal encodings: a flag may be set although the value it introduces equals
                    # what the decoder would have assumed (same horizontal wavelet, horizontal-only depth 0);
                    # neither implies major version 3 by itself, the other flag still may (seed C07e)
                    if not etpx.get("asym_transform_index_flag", False) and "wavelet_index" in tpx and rnd.random() < 0.5:
                        etpx["asym_transform_index_flag"] = True
                        etpx["wavelet_index_ho"] = tpx["wavelet_index"]
                        kinds_used.add(("asym_transform_index_flag", "redundant"))
                    elif (etpx.get("asym_transform_index_flag", False) and "wavelet_index" in tpx
                          and tpx.get("quant_matrix", {}).get("custom_quant_matrix", False) and same_index_ho):
                        # flag kept, horizontal wavelet made equal to the vertical one (the custom quantisation
                        # matrix depends on the depths only, so the stream stays decodable)
                        etpx["wavelet_index_ho"] = tpx["wavelet_index"]
                        kinds_used.add(("asym_transform_index_flag", "same-index"))
                    if not etpx.get("asym_transform_flag", False) and rnd.random() < 0.3:
                        etpx["asym_transform_flag"] = True
                        etpx["dwt_depth_ho"] = 0
                        kinds_used.add(("asym_transform_flag", "redundant"))
                    dflt = B.vc2_default_values[B.ExtendedTransformParameters]
                    for f in ("wavelet_index_ho", "dwt_depth_ho"):
                        if f in etpx and f in dflt and int(etpx[f]) == int(dflt[f]) and rnd.random() < 0.6:
                            del etpx[f]
                            kinds_used.add((f, "deleted"))
            if sp["delete_misc"] and rnd.random() < 0.3:
                pi.pop("parse_info_prefix", None)
            if sp["delete_misc"] and "padding" in du and not du["padding"]["bytes"] and rnd.random() < 0.5:
                del du["padding"]["bytes"]
        if ev is not None and ev < 3:
            # the user is responsible for making an explicit version and the presence of the extended
            # transform parameters agree (autofill docs): remove them
            for du in units:
                tp = None
                if "picture_parse" in du:
                    tp = du["picture_parse"]["wavelet_transform"]["transform_parameters"]
                elif "fragment_parse" in du and "transform_parameters" in du["fragment_parse"]:
                    tp = du["fragment_parse"]["transform_parameters"]
                if tp is not None:
                    tp.pop("extended_transform_parameters", None)
        stream["sequences"].append(B.Sequence(data_units=units))
    return stream, kinds_used, npicture_units


def walk_compare(inp, out, path, problems, skip_etp):
    """Every explicit value of the input description must appear unchanged in the output description."""
    from vc2_conformance.bitstream.vc2_autofill import AUTO

    if isinstance(inp, dict):
        for k, v in inp.items():
            if isinstance(k, str) and k.startswith("_"):
                continue
            if k == "extended_transform_parameters" and skip_etp(path):
                continue
            if v is AUTO:
                continue
            if not isinstance(out, dict) or k not in out:
                problems.append("%s: key %r missing from output" % ("/".join(map(str, path)), k))
                continue
            walk_compare(v, out[k], path + (k,), problems, skip_etp)
    elif isinstance(inp, list):
        if inp and all(isinstance(x, int) for x in inp):
            if list(out) != list(inp):
                problems.append("%s: list differs" % "/".join(map(str, path)))
            return
        if not isinstance(out, list) or len(out) != len(inp):
            problems.append("%s: list length %r vs %r" % ("/".join(map(str, path)), len(inp), len(out) if isinstance(out, list) else None))
            return
        for i, (a, b) in enumerate(zip(inp, out)):
            walk_compare(a, b, path + (i,), problems, skip_etp)
    elif isinstance(inp, bitarray):
        if out[:len(inp)] != inp or out[len(inp):].any():
            problems.append("%s: bit array differs" % "/".join(map(str, path)))
    elif isinstance(inp, bytes):
        if out[:len(inp)] != inp or any(out[len(inp):]):
            problems.append("%s: bytes differ" % "/".join(map(str, path)))
    else:
        if out != inp:
            problems.append("%s: %r became %r" % ("/".join(map(str, path)), inp, out))


def check(plan, col):
    from vc2_conformance import bitstream as B
    from vc2_conformance.bitstream.vc2_autofill import AUTO

    rec = {"plan": plan}
    stream, kinds_used, npics = build(plan)
    original = copy.deepcopy(stream)
    facts = {"outcome": "judged", "kinds": kinds_used, "npics": npics}
    f = BytesIO()
    try:
        B.autofill_and_serialise_stream(f, stream)
    except Exception as e:
        facts["outcome"] = "not_serialisable:" + type(e).__name__
        # metamorphic relation: the same description with every AUTO/omitted major_version replaced by the harness'
        # own minimum version (and, as the autofill documentation asks of explicit versions below 3, without the
        # extended transform parameters) must be just as unserialisable; if it serialises, the automatic version is
        # what made the description unserialisable (seed C07e)
        try:
            alt = copy.deepcopy(original)
            n_auto = 0
            for seq in alt["sequences"]:
                units = seq["data_units"]
                min_v = model_min_version(units, None)
                auto_active = False
                for du in units:
                    if "sequence_header" in du:
                        pp = du["sequence_header"].setdefault("parse_parameters", B.ParseParameters())
                        auto_active = pp.get("major_version", AUTO) is AUTO
                        if auto_active:
                            pp["major_version"] = min_v
                            n_auto += 1
                    if auto_active and min_v < 3:
                        tp = None
                        if "picture_parse" in du:
                            tp = du["picture_parse"]["wavelet_transform"]["transform_parameters"]
                        elif "fragment_parse" in du and "transform_parameters" in du["fragment_parse"]:
                            tp = du["fragment_parse"]["transform_parameters"]
                        if tp is not None:
                            tp.pop("extended_transform_parameters", None)
            ok = False
            if n_auto:
                try:
                    B.autofill_and_serialise_stream(BytesIO(), alt)
                    ok = True
                except Exception:
                    ok = False
        except Exception:
            ok = False
        if ok:
            col.fail("auto-version-unserialisable", rec,
                     "description is rejected by autofill_and_serialise_stream (%s: %s) but serialises once the AUTO/omitted "
                     "major_version fields carry the harness' minimum version" % (type(e).__name__, str(e)[:200]))
        return facts
    data = f.getvalue()
    try:
        out = C.deserialise(data)
    except Exception as e:
        col.fail(col.crash_bucket(e, "deserialise-output"), rec, "output of autofill_and_serialise_stream could not be deserialised: %s: %s" % (type(e).__name__, e))
        return facts
    if len(out["sequences"]) != len(original["sequences"]) or any(
            len(a["data_units"]) != len(b["data_units"]) for a, b in zip(out["sequences"], original["sequences"])):
        col.fail("structure-differs", rec, "output has a different sequence/data unit structure from the description")
        return facts
    defaults = B.vc2_default_values
    for si, (iseq, oseq) in enumerate(zip(original["sequences"], out["sequences"])):
        iunits, ounits = iseq["data_units"], oseq["data_units"]
        offs = [u["parse_info"]["_offset"] for u in ounits]
        # model: version
        explicit_versions = []
        min_v = model_min_version(iunits, defaults)
        auto_active = False
        etp_removed = {}
        for ui, du in enumerate(iunits):
            if "sequence_header" in du:
                mv = du["sequence_header"].get("parse_parameters", {}).get("major_version", AUTO)
                auto_active = mv is AUTO
            etp_removed[ui] = auto_active and min_v < 3
        last_num = (0 - 1) & 0xFFFFFFFF
        for ui, (du, ou) in enumerate(zip(iunits, ounits)):
            where = "sequence %d unit %d" % (si, ui)
            ipi, opi = du["parse_info"], ou["parse_info"]
            pc = int(ipi["parse_code"])
            # next offset
            nv = ipi.get("next_parse_offset", AUTO)
            if nv is AUTO:
                if pc in (0x20, 0x30):
                    payload = du.get("padding", du.get("auxiliary_data", {})).get("bytes", b"")
                    want = 13 + len(payload)
                elif ui == len(iunits) - 1:
                    want = 0
                else:
                    want = offs[ui + 1] - offs[ui]
                if opi["next_parse_offset"] != want:
                    col.fail("auto-next-offset", rec, "%s: AUTO next_parse_offset is %d, expected %d" % (where, opi["next_parse_offset"], want))
            pv = ipi.get("previous_parse_offset", AUTO)
            if pv is AUTO:
                want = 0 if ui == 0 else offs[ui] - offs[ui - 1]
                if opi["previous_parse_offset"] != want:
                    col.fail("auto-previous-offset", rec, "%s: AUTO previous_parse_offset is %d, expected %d" % (where, opi["previous_parse_offset"], want))
            if "parse_info_prefix" not in ipi and opi["parse_info_prefix"] != 0x42424344:
                col.fail("default-prefix", rec, "%s: default parse_info_prefix is %#x" % (where, opi["parse_info_prefix"]))
            # picture numbers
            ihdr = ohdr = None
            inc = True
            if "picture_parse" in du:
                ihdr, ohdr = du["picture_parse"]["picture_header"], ou["picture_parse"]["picture_header"]
            elif "fragment_parse" in du:
                ihdr, ohdr = du["fragment_parse"]["fragment_header"], ou["fragment_parse"]["fragment_header"]
                inc = ihdr["fragment_slice_count"] == 0
            if ihdr is not None:
                pn = ihdr.get("picture_number", AUTO)
                if pn is AUTO:
                    want = (last_num + 1) & 0xFFFFFFFF if inc else last_num
                    if ohdr["picture_number"] != want:
                        col.fail("auto-picture-number", rec, "%s: AUTO picture_number is %d, expected %d" % (where, ohdr["picture_number"], want))
                last_num = ohdr["picture_number"] if pn is AUTO else pn
            if "sequence_header" in du:
                ipp = du["sequence_header"].get("parse_parameters", {})
                opp = ou["sequence_header"]["parse_parameters"]
                if ipp.get("major_version", AUTO) is AUTO:
                    if opp["major_version"] != min_v:
                        col.fail("auto-major-version", rec, "%s: AUTO major_version is %d, harness minimum is %d" % (where, opp["major_version"], min_v))
                for fld in ("minor_version", "level", "profile"):
                    if fld not in ipp and opp[fld] != defaults[B.ParseParameters][fld]:
                        col.fail("default-" + fld, rec, "%s: omitted %s became %r" % (where, fld, opp[fld]))
            # ETP presence
            otp = None
            if "picture_parse" in ou:
                otp = ou["picture_parse"]["wavelet_transform"]["transform_parameters"]
                itp = du["picture_parse"]["wavelet_transform"]["transform_parameters"]
            elif "fragment_parse" in ou and "transform_parameters" in ou["fragment_parse"]:
                otp = ou["fragment_parse"]["transform_parameters"]
                itp = du["fragment_parse"]["transform_parameters"]
            if otp is not None and "extended_transform_parameters" in itp:
                if etp_removed[ui] and "extended_transform_parameters" in otp:
                    col.fail("etp-not-removed", rec, "%s: extended transform parameters kept although AUTO version is %d" % (where, min_v))
                if not etp_removed[ui] and "extended_transform_parameters" not in otp:
                    col.fail("etp-wrongly-removed", rec, "%s: extended transform parameters removed" % where)
            problems = []
            walk_compare(du, ou, (si, ui), problems, lambda path, r=etp_removed[ui]: r)
            if problems:
                col.fail("explicit-value-changed", rec, "%s: %s" % (where, "; ".join(problems[:3])))
    if all(sp["all_auto"] for sp in plan):
        try:
            v = S.validate(data)
            bad = v.error is not None and type(v.error).__name__ in (
                "InconsistentNextParseOffset", "InconsistentPreviousParseOffset", "MissingNextParseOffset", "InvalidNextParseOffset",
                "NonZeroNextParseOffsetAtEndOfSequence", "NonZeroPreviousParseOffsetAtStartOfSequence", "NonConsecutivePictureNumbers",
                "MajorVersionTooHigh", "MajorVersionTooLow", "ProfileNotSupportedByVersion", "ParseCodeNotSupportedByVersion",
                "PresetFrameRateNotSupportedByVersion", "PresetSignalRangeNotSupportedByVersion", "PresetColorSpecNotSupportedByVersion",
                "PresetColorPrimariesNotSupportedByVersion", "PresetColorMatrixNotSupportedByVersion",
                "PresetTransferFunctionNotSupportedByVersion", "PictureNumberChangedMidFragmentedPicture")
            if bad:
                col.fail("all-auto-rejected:" + type(v.error).__name__, rec, "all-AUTO description rejected by the validator: %s" % type(v.error).__name__)
            facts["validated"] = "accepted" if v.error is None else type(v.error).__name__
        except Exception as e:
            col.fail(col.crash_bucket(e, "validate"), rec, "validator raised %s" % type(e).__name__)
    return facts


def body(plan, col):
    facts = check(plan, col)
    kinds = facts.get("kinds", set())
    explicit_fields = set(f for f, k in kinds if k == "explicit")
    auto_fields = set(f for f, k in kinds if k in ("auto", "deleted"))
    nt = facts["outcome"] == "judged" and facts.get("npics", 0) >= 2 and any(
        e != a for e in explicit_fields for a in auto_fields)
    labels = [facts["outcome"], "seqs:%d" % len(plan)] + ["preset:%s" % sp["presets"] for sp in plan if sp["presets"]]
    labels += sorted(set("cfg:" + sp["name"] for sp in plan))
    if all(sp["all_auto"] for sp in plan):
        labels.append("all_auto")
        if "validated" in facts:
            labels.append("all_auto_validator:" + facts["validated"])
    col.case(key=repr(plan), nontrivial=nt, labels=labels, sample=lambda: {"plan": plan})


def shards(tier):
    return list(range(16 if tier == "quick" else 64))


def run_shard(spec, ctx):
    run_given(descriptions(), body, ctx, ctx.pick(500, 4000))


def replay(data, col):
    plan = data["plan"]
    for sp in plan:
        sp["units"] = [tuple(u) for u in sp["units"]]
    body(plan, col)
