"""C19 — sequence completion (make_matching_sequence) is sound, complete and shortest."""

import os
import random
from collections import Counter

from hypothesis import strategies as st

from vpbt import core
from vpbt.core import run_given
from vpbt.oracles import regex_ref as R
from vpbt.props import c18 as P18

ID = "C19"
LEVEL = "exploration"
RULE = (
    "Three parts. (1) Exhaustive box: every single pattern tree with <= 2 leaves over {a, b, .} with one of {none,?,*,+} on "
    "every node (1164 patterns) x every required list of length <= 2 over {a, b, x} (x is named by no pattern) x "
    "depth_limit in {0,1,2} x symbol_priority in {[]} (quick) / {[], [b, a]} (thorough); coverage.exhaustive refers to "
    "exactly this box. (2) Hypothesis: required lists of length 0..3 over three names plus an unnamed symbol, 1..3 "
    "patterns of 1..5 leaves each (same tree generator as C18: '$' only where nothing mandatory follows, random "
    "whitespace / redundant parentheses), depth_limit 0..4, symbol_priority empty or up to three distinct symbols "
    "(pattern names, the unnamed symbol, a symbol 'X' used nowhere else). (3) Real combinations, enumerated completely: "
    "every distinct LEVEL_SEQUENCE_RESTRICTIONS regex x the generic pattern 'sequence_header .* end_of_sequence' x "
    "{no extra pattern, each pattern the test-case generators pass to make_sequence, the documentation example} x picture "
    "lists of 0..4 pictures (low-delay / high-quality, whole pictures or groups of 2 or 3 fragments; quick: 0..2 pictures, "
    "groups of 2 fragments), called as "
    "encoder.sequence.make_sequence calls it (symbol_priority=[padding_data, sequence_header], default depth_limit). "
    "Oracle: breadth-first reference search over (required symbols consumed, current run of insertions, one position-"
    "automaton state per pattern) for the minimum length of a supersequence with <= depth_limit consecutive insertions "
    "(leading and trailing runs included); its witness, like the library's result, is verified with re.fullmatch against "
    "every pattern and with an embedding check (the required list is a subsequence such that every run of inserted "
    "symbols is <= depth_limit); WILDCARD placeholders in a result are replaced by a symbol no pattern names. "
    "A library result shorter than the reference minimum, or a witness that fails re.fullmatch, is a harness error. "
    "Known finding D4 is classified semantically: G = solutions that never insert where the next required symbol is "
    "viable for every pattern; 'longer than the minimum but minimal in G' and 'ImpossibleSequenceError although a solution "
    "exists, but none in G' carry sig D4-not-shortest / D4-false-impossible, everything else is a violation. "
    "Cases whose greedy search tree (counted by the reference) exceeds 2500 nodes are skipped and counted "
    "(label skipped:library_search_too_large) because the library deep-copies every matcher per node; a library call that "
    "nevertheless burns more than 30 s of CPU is cut off, counted (skipped:library_call_cut_off_after_cpu_limit) and "
    "not judged (hang protection, never a verdict). "
    "Non-trivial = the reference minimum needs at least one inserted symbol, or there are >= 2 patterns and >= 1 required "
    "symbol; distinct by (required, pattern texts, depth_limit, symbol_priority)."
)
ASSUMPTIONS = [
    "Python's re module is the ground truth for 'matches every supplied pattern' (witnesses and results are re-checked "
    "with re.fullmatch); the minimum length comes from a position-automaton search that C18 cross-checks against re on "
    "every generated pattern.",
    "depth_limit is read as documented: the maximum number of consecutive inserted symbols. The docstring says the "
    "default is 4 while the code uses 3; the real-combination part, which relies on the default, accepts either reading "
    "(label default_depth_limit_reading_matters counts the cases where they differ).",
    "A WILDCARD placeholder in the result stands for a symbol that no pattern names (it is only produced when "
    "symbol_priority is empty, as documented). Which of several shortest sequences is returned is not checked.",
    "Required lists contain names only (never the WILDCARD / END_OF_SEQUENCE sentinels); patterns never mix "
    "juxtaposition and '|' without parentheses (documented as undefined precedence).",
]

NODE_LIMIT = 2500
LIBRARY_CPU_LIMIT = 30   # seconds of CPU time for one library call (hang protection)


def EXHAUSTIVE(tier):
    return True


# ---------------------------------------------------------------------------
# reference search


class Problem(object):
    def __init__(self, required, trees, depth_limit, symbol_priority):
        self.required = tuple(required)
        self.trees = list(trees)
        self.depth = depth_limit
        self.priority = list(symbol_priority)
        extra = set(self.required) | set(self.priority)
        for t in self.trees:
            extra |= R.names(t)
        self.refs = [R.Ref(t, extra_symbols=sorted(extra)) for t in self.trees]
        self.auts = [r.automaton for r in self.refs]
        named = set()
        for t in self.trees:
            named |= R.names(t)
        self.alphabet = sorted(named) + [R.OTHER]

    def step_all(self, states, symbol):
        out = []
        for a, s in zip(self.auts, states):
            t = a.step(s, symbol)
            if t is None or not a.viable(t):
                return None
            out.append(t)
        return tuple(out)

    def search(self, greedy, depth=None):
        """(minimum length, witness) or (None, None); also counts the nodes of the un-deduplicated greedy tree."""
        depth = self.depth if depth is None else depth
        req = self.required
        n = len(req)
        start = (0, 0, tuple(a.start for a in self.auts))
        if not all(a.viable(s) for a, s in zip(self.auts, start[2])):
            return None, None
        parent = {start: None}
        level = [start]
        length = 0
        while level:
            for node in level:
                i, run, states = node
                if i == n and all(a.accepting(s) for a, s in zip(self.auts, states)):
                    seq = []
                    while parent[node] is not None:
                        node, symbol = parent[node]
                        seq.append(symbol)
                    return length, list(reversed(seq))
            nxt = []
            for node in level:
                i, run, states = node
                consumed = None
                if i < n:
                    consumed = self.step_all(states, req[i])
                    if consumed is not None:
                        child = (i + 1, 0, consumed)
                        if child not in parent:
                            parent[child] = (node, req[i])
                            nxt.append(child)
                if greedy and consumed is not None:
                    continue
                if run >= depth:
                    continue
                for symbol in self.alphabet:
                    t = self.step_all(states, symbol)
                    if t is not None:
                        child = (i, run + 1, t)
                        if child not in parent:
                            parent[child] = (node, symbol)
                            nxt.append(child)
            level = nxt
            length += 1
        return None, None

    def greedy_tree_size(self, limit):
        """Number of nodes the library's un-deduplicated breadth-first search would create (stops at limit)."""
        req = self.required
        n = len(req)
        level = Counter({(0, 0, tuple(a.start for a in self.auts)): 1})
        total = 1
        prio_extra = max(1, len(self.priority))
        while level and total <= limit:
            if any(i == n and all(a.accepting(s) for a, s in zip(self.auts, states)) for (i, run, states) in level):
                break
            nxt = Counter()
            for (i, run, states), count in level.items():
                if i < n:
                    # the library's test: the symbol (or a wildcard) is listed by every matcher
                    t = []
                    for a, s in zip(self.auts, states):
                        u = a.step(s, req[i])
                        t.append(u)
                    if all(u is not None for u in t):
                        nxt[(i + 1, 0, tuple(t))] += count
                        continue
                if run >= self.depth:
                    continue
                for symbol in self.alphabet:
                    t = [a.step(s, symbol) for a, s in zip(self.auts, states)]
                    if all(u is not None for u in t):
                        nxt[(i, run + 1, tuple(t))] += count * (prio_extra if symbol == R.OTHER else 1)
            total += sum(nxt.values())
            level = nxt
        return total

    # -- judging a candidate result
    def embeds(self, seq, depth=None):
        """required is a subsequence of seq such that every run of other symbols is <= depth."""
        depth = self.depth if depth is None else depth
        req = self.required
        n = len(req)
        # reach[i] = set of positions j (number of symbols of seq consumed) after matching i required symbols
        reach = {0}
        for i in range(n):
            new = set()
            for j in reach:
                for k in range(j, min(len(seq), j + depth + 1)):
                    if seq[k] == req[i] and seq[k] != R.WILDCARD:
                        new.add(k + 1)
            reach = new
            if not reach:
                return False
        return any(len(seq) - j <= depth for j in reach)

    def matches(self, seq):
        concrete = [R.OTHER if s == R.WILDCARD else s for s in seq]
        return [r.complete(concrete) for r in self.refs]


def judge_case(make_matching_sequence, Impossible, required, texts, trees, depth_limit, symbol_priority, col,
               default_depth=False):
    """Runs one case; returns (labels, nontrivial, summary) or None when skipped."""
    data = {"required": list(required), "patterns": list(texts), "asts": [R.to_json(t) for t in trees],
            "depth_limit": None if default_depth else depth_limit, "symbol_priority": list(symbol_priority)}
    depths = [3, 4] if default_depth else [depth_limit]
    prob = Problem(required, trees, depths[0], symbol_priority)
    labels = ["patterns:%d" % len(trees), "required:%d" % len(required),
              "depth_limit:%s" % ("default" if default_depth else depth_limit),
              "symbol_priority:%s" % ("empty" if not symbol_priority else "given")]
    if prob.greedy_tree_size(NODE_LIMIT) > NODE_LIMIT:
        return ["skipped:library_search_too_large"], False, None

    best, witness = prob.search(False)
    gbest, gwitness = prob.search(True)
    alt_best = None
    if default_depth:
        alt_best, alt_witness = prob.search(False, depths[1])
        if alt_best != best:
            labels.append("default_depth_limit_reading_matters")
    for w in (witness, gwitness):
        if w is not None and not (all(prob.matches(w)) and prob.embeds(w)):
            raise R.OracleDisagreement("reference witness %r for %r is not a solution (re.fullmatch %r, embeds %r)" % (
                w, data, prob.matches(w), prob.embeds(w)))
    if gbest is not None and (best is None or gbest < best):
        raise R.OracleDisagreement("greedy-constrained optimum better than the full optimum for %r" % (data,))

    kwargs = {}
    if not default_depth:
        kwargs["depth_limit"] = depth_limit
    if symbol_priority or not default_depth:
        kwargs["symbol_priority"] = list(symbol_priority)
    raised = False
    result = None
    try:
        result = R.guarded_call(LIBRARY_CPU_LIMIT, make_matching_sequence, list(required), *texts, **kwargs)
    except Impossible:
        raised = True
    except (R.OracleDisagreement, KeyboardInterrupt):
        raise
    except R.ReTimeout:
        # hang protection only, never a verdict (CPU time is not part of the property and the machine may be
        # oversubscribed): the case is counted and dropped
        return ["skipped:library_call_cut_off_after_cpu_limit"], False, None

    except Exception as e:
        # anything else the library raises for a well-formed call is a failure of the property (no result, no
        # ImpossibleSequenceError); with the recursion limit raised (see run_shard) a RecursionError means runaway recursion
        col.fail(col.crash_bucket(e), data, "make_matching_sequence(%r, %r, depth_limit=%r) raised %s: %s" % (
            list(required), list(texts), depth_limit, type(e).__name__, str(e)[:200]))
        return labels + ["outcome:VIOLATION"], True, {"result": type(e).__name__, "reference_minimum": best}

    nontrivial = (best is not None and best > len(required)) or (len(trees) >= 2 and len(required) >= 1)
    if best is not None:
        labels.append("reference:solvable_with_%d_insertions" % min(best - len(required), 6))
    else:
        labels.append("reference:impossible")
    if best != gbest:
        labels.append("greedy_cut_matters")

    if raised:
        if best is None:
            labels.append("outcome:correctly_impossible")
        elif gbest is None:
            labels.append("outcome:known_D4_false_impossible")
            col.fail("D4-false-impossible", data,
                     "ImpossibleSequenceError for required=%r patterns=%r depth_limit=%r although %r (length %d) is a "
                     "solution; no solution survives the greedy rule 'never insert while the next required symbol is "
                     "acceptable'" % (list(required), list(texts), depth_limit, witness, best),
                     sig="D4-false-impossible")
        else:
            labels.append("outcome:VIOLATION")
            col.fail("false-impossible", data,
                     "ImpossibleSequenceError for required=%r patterns=%r depth_limit=%r symbol_priority=%r although %r "
                     "is a solution (and %r one the greedy search can reach)" % (
                         list(required), list(texts), depth_limit, list(symbol_priority), witness, gwitness))
        return labels, nontrivial, {"result": "ImpossibleSequenceError", "reference_minimum": best}

    # a result was returned
    summary = {"result": result, "reference_minimum": best}
    if not isinstance(result, list) or not all(isinstance(s, str) for s in result):
        col.fail("result-not-a-list-of-symbols", data, "returned %r" % (result,))
        return labels + ["outcome:VIOLATION"], nontrivial, summary
    if R.WILDCARD in result:
        labels.append("result_has_wildcard_placeholder")
        if symbol_priority:
            col.fail("wildcard-placeholder-despite-symbol_priority", data,
                     "result %r contains the WILDCARD sentinel although symbol_priority=%r was given" % (
                         result, list(symbol_priority)))
    if R.END_OF_SEQUENCE in result:
        col.fail("end-of-sequence-sentinel-in-result", data, "result %r contains END_OF_SEQUENCE" % (result,))
        return labels + ["outcome:VIOLATION"], nontrivial, summary
    emb = prob.embeds(result) or (default_depth and prob.embeds(result, depths[1]))
    if not emb:
        sub = prob.embeds(result, len(result))
        col.fail("result-not-a-bounded-supersequence" if sub else "result-loses-or-reorders-required-symbols", data,
                 "result %r for required=%r depth_limit=%r: %s" % (
                     result, list(required), depth_limit,
                     "a run of inserted symbols exceeds depth_limit" if sub else "required list is not a subsequence"))
        return labels + ["outcome:VIOLATION"], nontrivial, summary
    m = prob.matches(result)
    if not all(m):
        bad = [t for t, ok in zip(texts, m) if not ok]
        col.fail("result-does-not-match-pattern", data,
                 "result %r for required=%r does not match %r (re.fullmatch)" % (result, list(required), bad))
        return labels + ["outcome:VIOLATION"], nontrivial, summary
    # sound; now the length
    if default_depth and alt_best is not None and len(result) == alt_best:
        labels.append("outcome:optimal")
    elif best is None or len(result) < best:
        raise R.OracleDisagreement("library result %r is a verified solution shorter than the reference minimum %r for %r" % (
            result, best, data))
    elif len(result) == best:
        labels.append("outcome:optimal")
    elif gbest is not None and len(result) == gbest:
        labels.append("outcome:known_D4_not_shortest")
        col.fail("D4-not-shortest", data,
                 "result %r (length %d) for required=%r patterns=%r depth_limit=%r; %r (length %d) is shorter. The result "
                 "is the shortest that never inserts while the next required symbol is acceptable" % (
                     result, len(result), list(required), list(texts), depth_limit, witness, best),
                 sig="D4-not-shortest")
    else:
        labels.append("outcome:VIOLATION")
        col.fail("not-shortest", data,
                 "result %r (length %d) for required=%r patterns=%r depth_limit=%r symbol_priority=%r; shortest is %r "
                 "(length %d), shortest under the greedy rule has length %r" % (
                     result, len(result), list(required), list(texts), depth_limit, list(symbol_priority), witness,
                     best, gbest))
    return labels, nontrivial, summary


def record(col, key, out, sample_data, may_sample=True):
    labels, nontrivial, summary = out
    if summary is None:
        col.case(key=key, nontrivial=False, labels=labels)
        return
    sample = None
    if may_sample and col._nt_samples < 2:
        d = dict(sample_data)
        d.update(summary)
        sample = d
    col.case(key=key, nontrivial=nontrivial, labels=labels, sample=sample)


# ---------------------------------------------------------------------------
# generators

BOX_REQ_SYMS = ("a", "b", "x")


@st.composite
def word_cases(draw):
    """Patterns shaped like the level ordering patterns: an alternation of 2-3 plain words (1-4 symbols, now and then
    one of them optional or repeated); required = one of the words with some symbols dropped, which the library has to
    put back. Competing branches of equal length differ only in what was inserted where."""
    scheme = draw(st.sampled_from(R.SCHEMES))
    alphabet = list(scheme[:4])

    def word():
        items = []
        syms = draw(st.lists(st.sampled_from(alphabet), min_size=1, max_size=4))
        for a in syms:
            node = R.sym(a)
            m = draw(st.sampled_from([None] * 8 + ["opt", "star"]))
            items.append((m, node) if m else node)
        tree = items[0]
        for it in items[1:]:
            tree = ("cat", tree, it)
        return tree, syms

    if draw(st.booleans()):
        # sibling words: the same core (the required symbols) in different contexts, so that branches which have consumed
        # the same required symbols after the same number of steps compete
        core = draw(st.lists(st.sampled_from(alphabet), min_size=1, max_size=2))

        def sibling():
            syms = (draw(st.lists(st.sampled_from(alphabet), max_size=2)) + core
                    + draw(st.lists(st.sampled_from(alphabet), max_size=2)))
            tree = R.sym(syms[0])
            for a in syms[1:]:
                tree = ("cat", tree, R.sym(a))
            return tree, syms

        words = [sibling() for _ in range(draw(st.sampled_from([2, 2, 3])))]
        tree = words[0][0]
        for w, _ in words[1:]:
            tree = ("alt", tree, w)
        depth = draw(st.sampled_from([1, 2, 2, 3]))
        prio = [] if draw(st.booleans()) else draw(st.lists(st.sampled_from(alphabet + ["X"]), min_size=1, max_size=3, unique=True))
        return [tree], scheme, draw(st.integers(0, (1 << 32) - 1)), list(core), depth, prio
    words = [word() for _ in range(draw(st.sampled_from([2, 2, 3])))]
    tree = words[0][0]
    for w, _ in words[1:]:
        tree = ("alt", tree, w)
    trees = [tree]
    if draw(st.integers(0, 5)) == 0:
        trees.append(draw(R.sized_tree(scheme[:3], draw(st.integers(1, 3)))))
        trees[-1] = R.repair_eos(trees[-1], R.sym(scheme[0]))
    base = words[draw(st.integers(0, len(words) - 1))][1]
    keep = draw(st.lists(st.booleans(), min_size=len(base), max_size=len(base)))
    required = [a for a, k in zip(base, keep) if k]
    depth = draw(st.sampled_from([1, 2, 2, 3, 3, 4]))
    prio = [] if draw(st.booleans()) else draw(st.lists(st.sampled_from(alphabet + ["X"]), min_size=1, max_size=3, unique=True))
    return trees, scheme, draw(st.integers(0, (1 << 32) - 1)), required, depth, prio


@st.composite
def generated_cases(draw):
    if draw(st.integers(0, 9)) < 4:
        return draw(word_cases())
    scheme = draw(st.sampled_from(R.SCHEMES))
    npat = draw(st.sampled_from([1, 1, 2, 2, 2, 3]))
    trees = []
    for _ in range(npat):
        n = draw(st.integers(1, 5))
        t = draw(R.sized_tree(scheme[:3], n))
        trees.append(R.repair_eos(t, R.sym(scheme[0])))
    rseed = draw(st.integers(0, (1 << 32) - 1))
    depth = draw(st.sampled_from([0, 1, 2, 2, 3, 3, 4]))
    if draw(st.integers(0, 9)) < 4:
        required = draw(st.lists(st.sampled_from(list(scheme[:3]) * 3 + [scheme[3]]), min_size=0, max_size=3))
    else:
        # a word that all patterns accept (joint walk over the reference automata, as far as it gets), thinned out:
        # the dropped symbols are what the library has to re-insert
        picks = draw(st.lists(st.integers(0, 255), min_size=2, max_size=7))
        required = thinned_joint_word(trees, scheme, picks, depth)
        if not required:
            # the patterns share no word (or only the empty one): walk the first pattern alone
            required = thinned_joint_word(trees[:1], scheme, picks, depth)
        if not required and draw(st.integers(0, 3)):
            required = draw(st.lists(st.sampled_from(list(scheme[:3]) * 3 + [scheme[3]]), min_size=1, max_size=3))
    if draw(st.booleans()):
        prio = []
    else:
        prio = draw(st.lists(st.sampled_from(list(scheme) + ["X"]), min_size=1, max_size=3, unique=True))
    return trees, scheme, rseed, required, depth, prio


def thinned_joint_word(trees, scheme, picks, depth):
    prob = Problem((), trees, depth, [])
    states = tuple(a.start for a in prob.auts)
    required = []
    run = 0
    for p in picks:
        accepting = all(a.accepting(s) for a, s in zip(prob.auts, states))
        if accepting and (p & 3) == 3:
            break
        options = []
        for symbol in scheme:
            t = prob.step_all(states, symbol)
            if t is not None:
                options.append((symbol, t))
        if not options:
            break
        symbol, states = options[(p >> 3) % len(options)]
        keep = (p & 4) == 0 or run >= max(depth, 1)
        if keep and len(required) < 3:
            required.append(symbol)
            run = 0
        else:
            run += 1
    return required


def picture_lists(max_pictures=4, fragment_counts=(2, 3)):
    out = []
    for kind in ("low_delay_picture", "high_quality_picture"):
        for count in range(0, max_pictures + 1):
            if count == 0 and kind != "low_delay_picture":
                continue
            out.append(("%d x %s" % (count, kind), [kind] * count))
        for frags in fragment_counts:
            for count in range(1, max_pictures + 1):
                out.append(("%d x %d %s_fragment" % (count, frags, kind), [kind + "_fragment"] * (frags * count)))
    return out


def real_cases(max_pictures=4, fragment_counts=(2, 3)):
    """[(description, required, [pattern texts])] enumerated completely."""
    pats = P18.real_patterns()
    levels = [(o, t) for o, t in pats if o.startswith("level")]
    extra = [(o, t) for o, t in pats if o == "test-case generator"]
    extra.append(("documentation example", "(. padding_data)+ end_of_sequence"))
    extras = [None] + extra
    out = []
    for lo, lt in levels:
        for e in extras:
            for pd, pl in picture_lists(max_pictures, fragment_counts):
                texts = ["sequence_header .* end_of_sequence", lt] + ([e[1]] if e else [])
                out.append(("%s, %s, %s" % (lo, e[0] if e else "no extra pattern", pd), pl, texts))
    return out


# ---------------------------------------------------------------------------


def shards(tier):
    out = [("hyp", k, 16) for k in range(16)]
    out += [("real", k, 16) for k in range(16)]
    if os.environ.get("VPBT_SKIP_BOX") != "1":   # development aid only (seed sweeps: the box does not depend on the seed)
        out += [("box", k, 24) for k in range(24)]
    return out


def deep_recursion():
    """make_matching_sequence deep-copies its matchers, and copy.deepcopy recurses along the NFA's node chain: a pattern
    with a few dozen nested operators needs more than the interpreter's default 1000 frames (how many are left depends
    on the caller's stack, so at the default the outcome even varies between two runs of the same case). The limit on
    pattern size is not part of the property, so the checks run with a high limit; a RecursionError that still occurs
    is runaway recursion and is reported."""
    import sys

    sys.setrecursionlimit(max(sys.getrecursionlimit(), 20000))


def run_shard(spec, ctx):
    from vc2_conformance.symbol_re import make_matching_sequence, ImpossibleSequenceError

    deep_recursion()

    col = ctx.col
    kind, k, n = spec
    if kind == "box":
        import itertools

        pats = list(P18.enum_asts(1)) + list(P18.enum_asts(2))
        reqs = [r for m in range(3) for r in itertools.product(BOX_REQ_SYMS, repeat=m)]
        prios = ctx.pick([[]], [[], ["b", "a"]])
        complete = True
        for i, tree in enumerate(pats):
            if i % n != k:
                continue
            if ctx.expired():
                col.inconclusive = 1
                complete = False
                break
            text = R.render(tree)
            for req in reqs:
                for depth in (0, 1, 2):
                    for prio in prios:
                        out = judge_case(make_matching_sequence, ImpossibleSequenceError, req, [text], [tree], depth,
                                         prio, col)
                        record(col, ("box", text, req, depth, tuple(prio)), (["part:box"] + out[0], out[1], out[2]),
                               {"part": "box", "required": list(req), "patterns": [text], "depth_limit": depth,
                                "symbol_priority": prio}, may_sample=(k == 0 and len(req) == 2 and depth == 2))
        col.exhaustive = complete   # False only when a --budget deadline cut the enumeration short
    elif kind == "real":
        cases = real_cases(*ctx.pick((2, (2,)), (4, (2, 3))))
        prio = ["padding_data", "sequence_header"]
        for i, (desc, req, texts) in enumerate(cases):
            if i % n != k:
                continue
            if ctx.expired():
                col.inconclusive = 1
                break
            trees = []
            ok = True
            for t in texts:
                tree = R.parse(t)
                if R.mixes_without_parentheses(t) or not R.eos_well_placed(tree):
                    ok = False
                trees.append(tree)
            if not ok:
                col.count("real:pattern_outside_the_property_domain")
                continue
            out = judge_case(make_matching_sequence, ImpossibleSequenceError, req, texts, trees, None, prio, col,
                             default_depth=True)
            record(col, ("real", desc), (["part:real"] + out[0], out[1], out[2]),
                   {"part": "real", "case": desc, "required": list(req), "patterns": texts, "symbol_priority": prio})
    else:
        def body(case, col):
            trees, scheme, rseed, required, depth, prio = case
            rnd = random.Random(rseed)
            texts = [R.render(t, rnd) if rseed % 3 else R.render(t) for t in trees]
            out = judge_case(make_matching_sequence, ImpossibleSequenceError, required, texts, trees, depth, prio, col)
            record(col, ("gen", tuple(texts), tuple(required), depth, tuple(prio)),
                   (["part:generated"] + out[0], out[1], out[2]),
                   {"part": "generated", "required": list(required), "patterns": texts, "depth_limit": depth,
                    "symbol_priority": prio})

        run_given(generated_cases(), body, ctx, ctx.pick(400, 8000))


def replay(data, col):
    from vc2_conformance.symbol_re import make_matching_sequence, ImpossibleSequenceError

    deep_recursion()

    texts = list(data["patterns"])
    if data.get("asts"):
        trees = [R.from_json(j) for j in data["asts"]]
    else:
        trees = [R.parse(t) for t in texts]
    depth = data.get("depth_limit")
    judge_case(make_matching_sequence, ImpossibleSequenceError, tuple(data.get("required", ())), texts, trees,
               depth, list(data.get("symbol_priority") or []), col, default_depth=depth is None)
    col.evaluations += 1
