#!/venv/bin/python
"""Coverage-guided (atheris / libFuzzer) campaign for C02, C06 and C26: one in-process entry function with the
semantic oracles inside the target.  Exceptions are *bucketed*, never fatal, so one shallow defect does not end
the campaign; buckets (first input per bucket) are written as JSON to --out when the run ends.

usage: validator_target.py --out FILE [--props C02,C06] [--corpus DIR] [--seed-corpus] -- <libFuzzer args, e.g. -runs=200000 -seed=7>
"""
import json
import os
import sys

HERE = os.path.dirname(os.path.dirname(os.path.dirname(os.path.realpath(__file__))))
sys.path[:0] = [HERE, os.path.join(HERE, ".deps")]

import atheris  # noqa: E402

from vpbt import core  # noqa: E402

core.setup_repo_path()

with atheris.instrument_imports(include=["vc2_conformance"]):
    import vc2_conformance  # noqa: F401
    from vc2_conformance import bitstream, decoder  # noqa: F401

from vpbt.core import Collector  # noqa: E402
from vpbt.props import c02, c06  # noqa: E402

COL = {"C02": Collector(), "C06": Collector()}
STATS = {"execs": 0, "nontrivial": 0}
OUT = [None]
PROPS = set(["C02", "C06"])
MAXLEN = 2048


def one_input(data):
    if len(data) > MAXLEN:
        return
    STATS["execs"] += 1
    if "C02" in PROPS:
        outcome, nt = c02.judge(bytes(data), COL["C02"])
        if nt:
            STATS["nontrivial"] += 1
        COL["C02"].labels[outcome] += 1
    if "C06" in PROPS:
        outcome6, nt6 = c06.judge(bytes(data), COL["C06"])
        if nt6 and "C02" not in PROPS:
            STATS["nontrivial"] += 1
        COL["C06"].labels[outcome6.split(":")[0]] += 1
    # libFuzzer leaves through _exit(): no atexit / finally, so results are flushed periodically
    if STATS["execs"] % 500 == 0:
        dump(OUT[0])


def main():
    argv = sys.argv[1:]
    out = None
    corpus_dir = None
    seed_corpus = False
    fuzz_args = []
    if "--" in argv:
        i = argv.index("--")
        argv, fuzz_args = argv[:i], argv[i + 1:]
    it = iter(argv)
    for a in it:
        if a == "--out":
            out = next(it)
            OUT[0] = out
        elif a == "--props":
            PROPS.clear()
            PROPS.update(next(it).split(","))
        elif a == "--corpus":
            corpus_dir = next(it)
        elif a == "--seed-corpus":
            seed_corpus = True
    if corpus_dir:
        os.makedirs(corpus_dir, exist_ok=True)
        if seed_corpus:
            from vpbt.gen import corpus as C

            for e in C.corpus():
                with open(os.path.join(corpus_dir, e["name"]), "wb") as f:
                    f.write(e["data"])
    args = [sys.argv[0]] + fuzz_args + ([corpus_dir] if corpus_dir else [])
    atheris.Setup(args, one_input)
    try:
        atheris.Fuzz()
    finally:
        dump(out)


def dump(out):
    if not out:
        return
    res = {"execs": STATS["execs"], "nontrivial": STATS["nontrivial"]}
    for pid, col in COL.items():
        res[pid] = {"labels": dict(col.labels), "failures": {b: dict(f) for b, f in col.failures.items()},
                    "failure_counts": dict(col.failure_counts)}
    with open(out + ".tmp", "w") as f:
        json.dump(res, f, indent=1, default=repr)
    os.replace(out + ".tmp", out)


if __name__ == "__main__":
    import atexit

    # libFuzzer ends the process with _exit() after -runs: write results from its own exit hook too
    main()
