"""Core harness objects: Collector (per-shard bookkeeping), hashing, Hypothesis driver.

A property module exposes

    ID, RULE, ASSUMPTIONS (list of str)
    def shards(tier) -> list of picklable shard specs
    def run_shard(spec, ctx)            # ctx.col is a Collector
    def replay(data, col)               # re-run ONE case from plain data, recording into col
    EXHAUSTIVE (optional) -> callable(tier) -> bool

Property bodies never raise for a property failure: they call ``col.fail``.
An exception escaping a property body is a *harness error* (exit 2).
"""

import hashlib
import json
import os
import sys
import time
import traceback
from collections import Counter

REPO = os.path.realpath(os.environ.get("VPBT_REPO", "/repo"))
VERIF = os.path.dirname(os.path.dirname(os.path.realpath(__file__)))


def setup_repo_path():
    """Make ``import vc2_conformance`` resolve to the working tree under REPO."""
    if REPO not in sys.path:
        sys.path.insert(0, REPO)
    tests = os.path.join(REPO, "tests")
    if tests not in sys.path:
        sys.path.append(tests)
    import vc2_conformance

    got = os.path.realpath(vc2_conformance.__file__)
    if not got.startswith(REPO + os.sep):
        raise RuntimeError(
            "vc2_conformance imported from %s, expected under %s" % (got, REPO)
        )


def jsonable(obj, depth=0):
    """Best effort conversion of a case into plain JSON data."""
    if depth > 12:
        return repr(obj)
    if obj is None or isinstance(obj, (bool, str)):
        return obj
    if isinstance(obj, int):
        # enums (IntEnum) -> name; big ints stay ints (json handles them)
        if type(obj) is not int and hasattr(obj, "name"):
            return "%s.%s" % (type(obj).__name__, obj.name)
        return int(obj)
    if isinstance(obj, float):
        return obj
    if isinstance(obj, (bytes, bytearray)):
        return {"hex": bytes(obj).hex()}
    if isinstance(obj, dict):
        return {str(jsonable(k, depth + 1)): jsonable(v, depth + 1) for k, v in obj.items()}
    if isinstance(obj, (list, tuple, set, frozenset)):
        seq = list(obj)
        if isinstance(obj, (set, frozenset)):
            seq = sorted(seq, key=repr)
        return [jsonable(v, depth + 1) for v in seq]
    if hasattr(obj, "name") and hasattr(obj, "value"):
        return "%s.%s" % (type(obj).__name__, obj.name)
    try:
        import numpy as np

        if isinstance(obj, np.ndarray):
            return obj.tolist()
        if isinstance(obj, np.generic):
            return obj.item()
    except Exception:
        pass
    return repr(obj)


def hash64(obj):
    if isinstance(obj, (bytes, bytearray)):
        b = bytes(obj)
    elif isinstance(obj, str):
        b = obj.encode("utf-8", "surrogatepass")
    else:
        b = repr(obj).encode("utf-8", "surrogatepass")
    return int.from_bytes(hashlib.blake2b(b, digest_size=8).digest(), "big")


class Failure(dict):
    """bucket, sig, message, data (plain JSON data sufficient for replay)."""


class Collector(object):
    MAX_SAMPLES = 8

    def __init__(self):
        self.evaluations = 0
        self.nontrivial = set()
        self.labels = Counter()
        self.samples = []
        self._nt_samples = 0
        self.failures = {}  # bucket -> Failure (first seen)
        self.failure_counts = Counter()
        self.known_hits = Counter()
        self.inconclusive = 0
        self.exhaustive = None
        self.extra = {}

    # -- bookkeeping -------------------------------------------------
    def case(self, key=None, nontrivial=False, labels=(), sample=None, n=1):
        """Record n evaluated cases. ``key`` identifies the case for distinctness."""
        self.evaluations += n
        for l in labels:
            self.labels[l] += 1
        if nontrivial:
            before = len(self.nontrivial)
            self.nontrivial.add(key if isinstance(key, int) else hash64(key))
            if sample is not None and len(self.nontrivial) > before:
                if self._nt_samples < self.MAX_SAMPLES:
                    self._nt_samples += 1
                    self.samples.append(jsonable(sample() if callable(sample) else sample))

    def count(self, label, n=1):
        self.labels[label] += n

    def sample(self, s):
        if len(self.samples) < self.MAX_SAMPLES:
            self.samples.append(jsonable(s))

    def fail(self, bucket, data, message, sig=None):
        """Record a property failure. data: plain JSON replay data."""
        self.failure_counts[bucket] += 1
        if bucket not in self.failures:
            self.failures[bucket] = Failure(
                bucket=bucket, sig=sig, message=str(message)[:2000], data=jsonable(data)
            )

    def crash_bucket(self, exc, prefix="crash"):
        """Bucket key for an unexpected exception: type + innermost repo frame."""
        tb = traceback.extract_tb(exc.__traceback__)
        where = "?"
        for fr in tb:
            if "vc2_conformance" in fr.filename or "vc2_bit_widths" in fr.filename:
                where = "%s:%s" % (os.path.basename(fr.filename), fr.name)
        return "%s:%s@%s" % (prefix, type(exc).__name__, where)

    # -- (de)serialisation between processes -------------------------
    def to_dict(self):
        return dict(
            evaluations=self.evaluations,
            nontrivial=self.nontrivial,
            labels=dict(self.labels),
            samples=self.samples,
            failures=dict(self.failures),
            failure_counts=dict(self.failure_counts),
            known_hits=dict(self.known_hits),
            inconclusive=self.inconclusive,
            exhaustive=self.exhaustive,
            extra=self.extra,
        )

    def merge(self, d):
        self.evaluations += d["evaluations"]
        self.nontrivial |= d["nontrivial"]
        self.labels.update(d["labels"])
        for s in d["samples"]:
            if len(self.samples) < 10:
                self.samples.append(s)
        for b, f in d["failures"].items():
            self.failures.setdefault(b, f)
        self.failure_counts.update(d["failure_counts"])
        self.known_hits.update(d["known_hits"])
        self.inconclusive += d["inconclusive"]
        if d["exhaustive"] is not None:
            self.exhaustive = d["exhaustive"] if self.exhaustive is None else (self.exhaustive and d["exhaustive"])
        for k, v in d["extra"].items():
            if isinstance(v, (int, float)) and isinstance(self.extra.get(k, 0), (int, float)):
                self.extra[k] = self.extra.get(k, 0) + v
            else:
                self.extra.setdefault(k, v)


class Ctx(object):
    def __init__(self, tier, base_seed, shard_index, nshards, deadline=None):
        self.tier = tier
        self.base_seed = base_seed
        self.shard_index = shard_index
        self.nshards = nshards
        self.seed = base_seed * 1000003 + 7919 * shard_index
        self.col = Collector()
        self.deadline = deadline

    @property
    def thorough(self):
        return self.tier == "thorough"

    def expired(self):
        return self.deadline is not None and time.time() > self.deadline

    def pick(self, quick, thorough):
        return thorough if self.tier == "thorough" else quick


class _Target(Exception):
    pass


def run_given(strategy, body, ctx, max_examples, shrink=None, salt=0):
    """Drive ``body(case, col)`` with Hypothesis.

    body records failures into col and never raises for them.  When shrink is
    enabled (default: thorough tier or VPBT_SHRINK=1) each new failure bucket
    (at most 3) is re-found with the same seed and shrunk by Hypothesis; the
    minimal case replaces the first-seen one.
    """
    import hypothesis
    from hypothesis import HealthCheck, Phase, given, settings

    col = ctx.col
    scale = float(os.environ.get("VPBT_SCALE", "1") or "1")  # development aid only
    max_examples = max(1, int(max_examples * scale))
    if shrink is None:
        shrink = ctx.thorough or os.environ.get("VPBT_SHRINK") == "1"
    seed_value = ctx.seed + salt * 104729

    def make(phases, fn):
        st = settings(
            max_examples=max_examples,
            database=None,
            deadline=None,
            derandomize=False,
            report_multiple_bugs=False,
            phases=phases,
            suppress_health_check=[HealthCheck.too_slow, HealthCheck.data_too_large,
                                   HealthCheck.large_base_example],
            print_blob=False,
        )
        return hypothesis.seed(seed_value)(st(given(strategy)(fn)))

    before = set(col.failures)

    # Hypothesis always starts the generate phase with its simplest ("all-zero") example, which is the same in
    # every shard: shards other than the first skip it (and get one more example instead).
    skip_first = [ctx.shard_index != 0]
    if skip_first[0]:
        max_examples += 1

    def t(case):
        if skip_first[0]:
            skip_first[0] = False
            return
        if ctx.expired():
            col.inconclusive = 1
            return
        body(case, col)

    make([Phase.generate], t)()

    new = [b for b in col.failures if b not in before]
    if shrink:
        for bucket in new[:3]:
            last = {}

            def make_t2(bucket, last):
                # NB: @given refuses functions with default arguments, hence a factory rather than defaults
                def t2(case):
                    c2 = Collector()
                    body(case, c2)
                    if bucket in c2.failures:
                        last["f"] = c2.failures[bucket]
                        raise _Target()

                return t2

            try:
                make([Phase.generate, Phase.shrink], make_t2(bucket, last))()
            except _Target:
                pass
            except Exception as e:  # shrinking is best effort; keep the first-seen case
                sys.stderr.write("note: shrinking of bucket %r failed: %s: %s\n" % (bucket, type(e).__name__, e))
            if "f" in last:
                f = last["f"]
                f["shrunk"] = True
                col.failures[bucket] = f


class CpuTimeout(Exception):
    """Raised by cpu_limit when the enclosed call used more CPU time than allowed."""


class cpu_limit(object):
    """Context manager: raise CpuTimeout if the body consumes more than ``seconds`` of *CPU* time
    (ITIMER_VIRTUAL, so machine load does not matter). For calls that normally take milliseconds; the
    limit is orders of magnitude above that, so hitting it means the code under test does not terminate."""

    def __init__(self, seconds):
        self.seconds = seconds

    def _fire(self, signum, frame):
        raise CpuTimeout()

    def __enter__(self):
        import signal

        self._old = signal.signal(signal.SIGVTALRM, self._fire)
        signal.setitimer(signal.ITIMER_VIRTUAL, self.seconds)

    def __exit__(self, *exc):
        import signal

        signal.setitimer(signal.ITIMER_VIRTUAL, 0)
        signal.signal(signal.SIGVTALRM, self._old)
        return False
