"""Reference size model for lossy slices (DESIGN C03/C14): written from the standard, independent
of encoder/pictures.py and bitstream/exp_golomb.py."""


def intlog2(n):
    return (n - 1).bit_length()


def quant_factor(index):
    base = 1 << (index // 4)
    r = index % 4
    if r == 0:
        return 4 * base
    num, add, den = {1: (503829, 52958, 105917), 2: (665857, 58854, 117708), 3: (440253, 32722, 65444)}[r]
    return (num * base + add) // den


def quantise(c, q):
    m = (4 * abs(c)) // quant_factor(q)
    return m if c >= 0 else -m


def sint_bits(v):
    """Length of the signed interleaved exp-Golomb code of v (A.4.4)."""
    if v == 0:
        return 1
    return 2 * ((abs(v) + 1).bit_length() - 1) + 1 + 1


def uint_bits(v):
    return 2 * ((v + 1).bit_length() - 1) + 1


def block_bits(values):
    """Bits needed in a bounded block: trailing zeros are free (reads past the end give 1s = 0)."""
    n = len(values)
    while n and values[n - 1] == 0:
        n -= 1
    return sum(sint_bits(v) for v in values[:n])


def quantised(comp, q):
    return [quantise(c, max(0, q - m)) for c, m in zip(comp.coeff_values, comp.quant_matrix_values)]


def slice_bytes(slices_x, slices_y, num, den, sx, sy):
    n = sy * slices_x + sx
    return ((n + 1) * num) // den - (n * num) // den


def interleave(a, b):
    out = []
    for x, y in zip(a, b):
        out += [x, y]
    return out


def ld_budget_bits(slice_bytes_):
    bits = 8 * slice_bytes_ - 7
    return bits - intlog2(bits)


def ld_fits(sc, q, slice_bytes_):
    y = block_bits(quantised(sc.Y, q))
    c = block_bits(interleave(quantised(sc.C1, q), quantised(sc.C2, q)))
    return y + c <= ld_budget_bits(slice_bytes_)


def hq_units(sc, q, scaler):
    """Number of scaler-byte units needed by the three components at qindex q."""
    unit = 8 * scaler
    return sum(-(-block_bits(quantised(comp, q)) // unit) for comp in (sc.Y, sc.C1, sc.C2))


def hq_safe_scaler(picture_bytes, num_slices):
    max_slice = -(-picture_bytes // num_slices)
    return max(1, -(-(max_slice - 4) // 255))


def max_useful_q(sc):
    """A qindex at which everything quantises to zero (search bound)."""
    big = 0
    for comp in (sc.Y, sc.C1, sc.C2):
        for c, m in zip(comp.coeff_values, comp.quant_matrix_values):
            if c:
                # need 4|c| < qf(q-m); qf roughly 4*2^(q/4)
                big = max(big, 4 * (abs(c).bit_length() + 1) + m + 4)
    return big


def min_fitting_q(fits, start, limit):
    for q in range(start, limit + 1):
        if fits(q):
            return q
    return None


def budget_representable(cf, pictures):
    """True iff every slice of every picture has a fitting qindex representable in the qindex field."""
    from vc2_data_tables import Profiles
    from vc2_conformance.encoder.pictures import transform_and_slice_picture

    ld = cf["profile"] == Profiles.low_delay
    qmax = 127 if ld else 255
    sx_n, sy_n = cf["slices_x"], cf["slices_y"]
    ns = sx_n * sy_n
    pb = cf["picture_bytes"]
    for pic in pictures:
        coeffs = transform_and_slice_picture(cf, pic)
        for sy in range(sy_n):
            for sx in range(sx_n):
                sc = coeffs[sy][sx]
                if ld:
                    sb = slice_bytes(sx_n, sy_n, pb, ns, sx, sy)
                    ok = min_fitting_q(lambda q: ld_fits(sc, q, sb), 0, qmax)
                else:
                    scaler = hq_safe_scaler(pb, ns)
                    tl = slice_bytes(sx_n, sy_n, pb - 4 * ns, ns * scaler, sx, sy)
                    ok = min_fitting_q(lambda q: hq_units(sc, q, scaler) <= tl, 0, qmax)
                if ok is None:
                    return False
    return True
