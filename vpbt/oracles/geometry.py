"""Harness' own picture / subband / slice geometry and dequantisation (independent of pseudocode/*)."""

from vpbt.oracles.sizes import quant_factor


def intlog2(n):
    return (n - 1).bit_length()


def component_dims(frame_width, frame_height, cdf_index, fields):
    """(luma_w, luma_h, chroma_w, chroma_h); cdf_index 0=4:4:4, 1=4:2:2, 2=4:2:0"""
    lw, lh = frame_width, frame_height
    cw, ch = lw, lh
    if cdf_index == 1:
        cw //= 2
    elif cdf_index == 2:
        cw //= 2
        ch //= 2
    if fields:
        lh //= 2
        ch //= 2
    return lw, lh, cw, ch


def subband_dims(w, h, dwt_depth, dwt_depth_ho, level):
    """(width, height) of every subband at ``level`` for a w x h component: pad to a multiple of the
    total scale, then halve once per transform level (horizontal-only levels halve the width only)."""
    sw = 1 << (dwt_depth + dwt_depth_ho)
    sh = 1 << dwt_depth
    pw = -(-w // sw) * sw
    ph = -(-h // sh) * sh
    total = dwt_depth + dwt_depth_ho
    # number of halvings applied to reach this level: level 0 shares level 1's size
    lv = max(level, 1)
    nh = total - lv + 1
    width = pw >> nh if total else pw
    # vertical halvings: only the 2D levels (those above dwt_depth_ho) halve the height
    if lv <= dwt_depth_ho:
        nv = dwt_depth
    else:
        nv = total - lv + 1
    height = ph >> nv if total else ph
    if total == 0:
        return pw, ph
    return width, height


def orients(dwt_depth, dwt_depth_ho, level):
    if level == 0:
        return ["L"] if dwt_depth_ho > 0 else ["LL"]
    if level <= dwt_depth_ho:
        return ["H"]
    return ["HL", "LH", "HH"]


def slice_range(size, n, i):
    return (size * i) // n, (size * (i + 1)) // n


def quant_offset(q):
    if q == 0:
        return 1
    if q == 1:
        return 2
    return (quant_factor(q) + 1) // 2


def dequant(v, q):
    m = abs(v)
    if m:
        m = (m * quant_factor(q) + quant_offset(q) + 2) // 4
    return m if v >= 0 else -m


def mean3(a, b, c):
    return (a + b + c + 1) // 3


def dc_predict(band):
    h = len(band)
    w = len(band[0]) if h else 0
    for y in range(h):
        for x in range(w):
            if x > 0 and y > 0:
                p = mean3(band[y][x - 1], band[y - 1][x - 1], band[y - 1][x])
            elif x > 0:
                p = band[0][x - 1]
            elif y > 0:
                p = band[y - 1][0]
            else:
                p = 0
            band[y][x] += p


def place_slices(slices, comp_dims, dwt_depth, dwt_depth_ho, slices_x, slices_y, matrix, ld):
    """Rebuild dequantised subband arrays from per-slice coefficient lists.

    slices: list in raster order of dicts {qindex, Y:[...], C1:[...], C2:[...]} (bitstream order per component)
    comp_dims: {"Y": (w,h), "C1": (w,h), "C2": (w,h)};  matrix: {level: {orient: value}}
    returns {comp: {level: {orient: 2D list}}}
    """
    out = {}
    nlevels = dwt_depth + dwt_depth_ho
    for comp, (w, h) in comp_dims.items():
        out[comp] = {}
        for level in range(0, nlevels + 1):
            bw, bh = subband_dims(w, h, dwt_depth, dwt_depth_ho, level)
            out[comp][level] = {o: [[0] * bw for _ in range(bh)] for o in orients(dwt_depth, dwt_depth_ho, level)}
    for n, s in enumerate(slices):
        sx, sy = n % slices_x, n // slices_x
        for comp in ("Y", "C1", "C2"):
            vals = s[comp]
            k = 0
            w, h = comp_dims[comp]
            for level in range(0, nlevels + 1):
                bw, bh = subband_dims(w, h, dwt_depth, dwt_depth_ho, level)
                x0, x1 = slice_range(bw, slices_x, sx)
                y0, y1 = slice_range(bh, slices_y, sy)
                for o in orients(dwt_depth, dwt_depth_ho, level):
                    q = max(s["qindex"] - matrix[level][o], 0)
                    band = out[comp][level][o]
                    for y in range(y0, y1):
                        row = band[y]
                        for x in range(x0, x1):
                            row[x] = dequant(vals[k], q)
                            k += 1
            if k != len(vals):
                raise ValueError("slice %d component %s: description holds %d coefficients, geometry needs %d" % (n, comp, len(vals), k))
    if ld:
        for comp in out:
            dc_predict(out[comp][0]["L" if dwt_depth_ho > 0 else "LL"])
    return out


def slice_coeff_count(comp_dims, dwt_depth, dwt_depth_ho, slices_x, slices_y, sx, sy, comp):
    w, h = comp_dims[comp]
    n = 0
    for level in range(0, dwt_depth + dwt_depth_ho + 1):
        bw, bh = subband_dims(w, h, dwt_depth, dwt_depth_ho, level)
        x0, x1 = slice_range(bw, slices_x, sx)
        y0, y1 = slice_range(bh, slices_y, sy)
        n += (x1 - x0) * (y1 - y0) * len(orients(dwt_depth, dwt_depth_ho, level))
    return n
