"""From-scratch stream-structure model for C01 (DESIGN C01).

A history is a flat list of unit dicts (see props/c01.py).  ``judge(units)`` returns
(accept: bool, reason: str).  Nothing here imports vc2_conformance.
"""

import re

HQ, LD = "HQ", "LD"
NSLICES_FRAG = 4  # fragmented pictures in the harness always have 2x2 slices

# one character per data unit type
SYM = {
    "SH": "s", "EOS": "e", "AUX": "a", "PAD": "p",
    ("PIC", LD): "l", ("PIC", HQ): "h", ("FRAG", LD): "L", ("FRAG", HQ): "H",
}

_LEVEL_1_7 = r"s(?:[saplh]*|[sapLH]*)e"
LEVEL_RE = {0: r".*", 64: r"(?:sl)*e", 65: r"(?:sl)*e", 66: r"(?:sh)*e"}
for _l in range(1, 8):
    LEVEL_RE[_l] = _LEVEL_1_7
GENERIC_RE = r"s.*e"


def symbol(u):
    k = u["kind"]
    if k in ("PIC",):
        return SYM[("PIC", u["profile"])]
    if k in ("F0", "FN"):
        return SYM[("FRAG", u["profile"])]
    return SYM[k]


def split_sequences(units):
    """The validator ends a sequence at the first end-of-sequence unit."""
    seqs, cur = [], []
    for u in units:
        cur.append(u)
        if u["kind"] == "EOS":
            seqs.append(cur)
            cur = []
    return seqs, cur  # cur = trailing units without an EOS


def judge(units):
    seqs, tail = split_sequences(units)
    for n, seq in enumerate(seqs):
        ok, why = judge_sequence(seq)
        if not ok:
            return False, "sequence %d: %s" % (n, why)
    if tail:
        # (10.3) a stream is a whole number of sequences: data after the last end_of_sequence
        ok, why = judge_sequence(tail + [None])
        return False, "stream ends inside a sequence (%s)" % (why if not ok else "no end_of_sequence")
    return True, "ok"


def judge_sequence(seq):
    """seq: units of one sequence, last one is the EOS (or None marker for 'stream ended')."""
    ended = seq[-1] is not None
    units = seq if ended else seq[:-1]
    first = units[0]
    if first["kind"] != "SH":
        return False, "first data unit is not a sequence header"
    ctx = (first["profile"], first["pcm"], first["version"], first["level"], first["variant"])
    profile, pcm, v, level = first["profile"], first["pcm"], first["version"], first["level"]
    if v < 1:
        return False, "major_version < 1"
    if profile == HQ and v < 2:
        return False, "HQ profile needs major_version >= 2"
    syms = "".join(symbol(u) for u in units)
    last_num = None
    npics = 0
    remaining = 0
    received = 0
    started = False
    any_fragment = False
    for k, u in enumerate(units):
        kind = u["kind"]
        # ---- parse offsets (10.5.1)
        if u["prev"] != "ok" and not (u["prev"] == "zero" and k == 0):
            # zero is the correct value in (only) the first data unit of a sequence
            return False, "unit %d: wrong previous_parse_offset" % k
        nxt = u["next"]
        if kind == "EOS":
            if nxt not in ("ok", "zero"):
                return False, "unit %d: non-zero next_parse_offset at end of sequence" % k
        elif kind in ("PIC", "F0", "FN"):
            if nxt not in ("ok", "zero"):
                return False, "unit %d: wrong next_parse_offset" % k
        else:
            if nxt != "ok":
                return False, "unit %d: missing/wrong next_parse_offset" % k
        # ---- order: generic and level patterns (prefix viability == fullmatch at the end; any
        # non-viable prefix makes the final fullmatch fail too, so only the verdict is modelled)
        # ---- sequence headers identical (11.1)
        if kind == "SH" and k > 0:
            if (u["profile"], u["pcm"], u["version"], u["level"], u["variant"]) != ctx:
                return False, "unit %d: sequence header differs from the first one" % k
        # ---- profile / version permitted parse codes (C.2.2, 11.2.2)
        if kind in ("PIC", "F0", "FN"):
            if u["profile"] != profile:
                return False, "unit %d: parse code not allowed in profile" % k
        if kind in ("F0", "FN"):
            any_fragment = True
            if v < 3:
                return False, "unit %d: fragments need major_version >= 3" % k
        # ---- pictures and fragments (12.2, 14.2)
        if kind in ("PIC", "F0"):
            if remaining != 0:
                return False, "unit %d: picture/first fragment while a fragmented picture is incomplete" % k
            if last_num is not None and u["picnum"] != (last_num + 1) % (1 << 32):
                return False, "unit %d: picture number %d does not follow %d" % (k, u["picnum"], last_num)
            if pcm == "fields" and npics % 2 == 0 and u["picnum"] % 2 == 1:
                return False, "unit %d: first field has an odd picture number" % k
            last_num = u["picnum"]
            npics += 1
            if kind == "F0":
                remaining = NSLICES_FRAG
                received = 0
                started = True
        elif kind == "FN":
            if not started:
                return False, "unit %d: fragment with slices but no fragmented picture started" % k
            if u["picnum"] != last_num:
                return False, "unit %d: picture number changed inside a fragmented picture" % k
            if u["count"] > remaining:
                return False, "unit %d: more slices than remain" % k
            # declared (x, y) offset must be the raster position of the next expected slice (2 slices per row)
            declared = tuple(u["xy"]) if u.get("xy") is not None else (u["start"] % 2, u["start"] // 2)
            # (only the declared offset counts: a fragment whose slices were cut from another position but which
            # declares the expected one is indistinguishable, for the decoder, from the right fragment)
            if declared != (received % 2, received // 2):
                return False, "unit %d: fragment slices not contiguous" % k
            received += u["count"]
            remaining -= u["count"]
    if not re.fullmatch(GENERIC_RE, syms + ("" if ended else "")) and ended:
        return False, "sequence does not match sequence_header .* end_of_sequence"
    if ended and not re.fullmatch(LEVEL_RE[level], syms):
        return False, "sequence does not match the level %d ordering pattern" % level
    if not ended:
        # order violations inside the unfinished part still reject; and an unfinished sequence rejects anyway
        return False, "no end_of_sequence"
    if remaining != 0:
        return False, "fragmented picture incomplete at end of sequence"
    if pcm == "fields" and npics % 2 == 1:
        return False, "odd number of fields"
    expected = max(1, 2 if profile == HQ else 1, 3 if any_fragment else 1)
    if not (npics == 0 and v == 3) and v > expected:
        return False, "major_version %d higher than the minimum %d" % (v, expected)
    return True, "ok"
