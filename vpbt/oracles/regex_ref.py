"""Reference model for the symbol regular expressions of vc2_conformance.symbol_re.

Nothing in here imports or imitates the code under test.  A pattern is held as
*our own* AST (nested tuples), which is

* rendered to the library's textual syntax (``render``; optional random
  whitespace and redundant parentheses; concatenation and alternation are never
  mixed without explicit parentheses because the library documents the
  precedence between them as undefined),
* translated into a Python ``re`` pattern over one character per symbol
  (``to_re``: ``.`` -> a character class holding every character in use plus one
  character standing for "a symbol the pattern does not name", ``$`` -> ``\\Z``),
* translated into the ``re`` pattern of its *prefix closure* (``prefix_re``), and
* compiled into a position (Glushkov) automaton, a construction without empty
  transitions and therefore unrelated to the library's Thompson construction.

``Ref`` bundles the three engines:

  fullmatch(seq)       re.fullmatch                       (the ground truth)
  viable_bf(seq)       brute force: some extension by at most <leaves> symbols
                       fullmatches (sufficient: the position automaton has
                       leaves+1 states).  Only for small patterns.
  viable_re(seq)       re.fullmatch against the prefix-closure pattern
  automaton            deterministic walk over sets of positions: accept,
                       viability, concrete labels available next.  Used where
                       a *state* is needed (searches of C19) and cross-checked
                       against the ``re`` engines wherever both are evaluated
                       (``OracleDisagreement`` = harness error, never a verdict).

AST nodes:  ("sym", name) ("any",) ("eos",) ("empty",)
            ("cat", a, b) ("alt", a, b) ("opt", a) ("star", a) ("plus", a)
"""

import itertools
import re

from hypothesis import strategies as st

ANY = ("any",)
EOS = ("eos",)
EMPTY = ("empty",)

WILDCARD = "."        # the library's documented constants, restated here on purpose
END_OF_SEQUENCE = ""

OTHER = "\x00other"   # stands for every symbol the pattern does not name


class OracleDisagreement(Exception):
    """Two reference engines disagree: a harness defect, not a finding."""


def sym(name):
    return ("sym", name)


def leaves(ast):
    k = ast[0]
    if k in ("sym", "any", "eos"):
        return 1
    if k == "empty":
        return 0
    return sum(leaves(c) for c in ast[1:])


def names(ast, out=None):
    out = set() if out is None else out
    if ast[0] == "sym":
        out.add(ast[1])
    elif ast[0] in ("cat", "alt", "opt", "star", "plus"):
        for c in ast[1:]:
            names(c, out)
    return out


def features(ast):
    """Structural labels used for the evidence histogram."""
    f = set()

    def walk(n, under_alt):
        k = n[0]
        if k == "any":
            f.add("pat:wildcard")
        elif k == "eos":
            f.add("pat:eos")
        elif k == "empty":
            f.add("pat:empty_alternative")
        elif k == "alt":
            f.add("pat:alternation")
            for c in n[1:]:
                if has_rep(c):
                    f.add("pat:alternation_with_starred_or_optional_branch")
                walk(c, True)
        elif k == "cat":
            for c in n[1:]:
                walk(c, under_alt)
        elif k in ("opt", "star", "plus"):
            f.add({"opt": "pat:optional", "star": "pat:star", "plus": "pat:plus"}[k])
            if n[1][0] in ("opt", "star", "plus"):
                f.add("pat:nested_modifier")
            walk(n[1], under_alt)

    def has_rep(n):
        if n[0] in ("opt", "star", "plus"):
            return True
        if n[0] in ("cat", "alt"):
            return any(has_rep(c) for c in n[1:])
        return False

    walk(ast, False)
    return f


def has_operator(ast):
    k = ast[0]
    if k in ("alt", "opt", "star", "plus"):
        return True
    if k == "cat":
        return has_operator(ast[1]) or has_operator(ast[2])
    return False


def to_json(ast):
    return [ast[0]] + [to_json(c) if isinstance(c, tuple) else c for c in ast[1:]]


def from_json(j):
    return tuple([j[0]] + [from_json(c) if isinstance(c, list) else c for c in j[1:]])


# ---------------------------------------------------------------------------
# domain rule of the property: "$ only where nothing mandatory follows it"


def nullable(ast):
    k = ast[0]
    if k in ("sym", "any"):
        return False
    if k in ("eos", "empty", "opt", "star"):
        return True   # "$" consumes no symbol
    if k == "plus":
        return nullable(ast[1])
    if k == "cat":
        return nullable(ast[1]) and nullable(ast[2])
    return nullable(ast[1]) or nullable(ast[2])


def eos_well_placed(ast, tail_nullable=True):
    """True iff every ``$`` is followed only by parts that may match nothing."""
    k = ast[0]
    if k == "eos":
        return tail_nullable
    if k in ("sym", "any", "empty"):
        return True
    if k == "cat":
        return (eos_well_placed(ast[1], tail_nullable and nullable(ast[2]))
                and eos_well_placed(ast[2], tail_nullable))
    if k == "alt":
        return eos_well_placed(ast[1], tail_nullable) and eos_well_placed(ast[2], tail_nullable)
    # opt / star / plus: a further iteration is never mandatory
    return eos_well_placed(ast[1], tail_nullable)


def repair_eos(ast, replacement, tail_nullable=True):
    """Replace every misplaced ``$`` leaf by ``replacement`` (construct, don't filter)."""
    k = ast[0]
    if k == "eos":
        return ast if tail_nullable else replacement
    if k in ("sym", "any", "empty"):
        return ast
    if k == "cat":
        b = repair_eos(ast[2], replacement, tail_nullable)
        a = repair_eos(ast[1], replacement, tail_nullable and nullable(b))
        return ("cat", a, b)
    if k == "alt":
        return ("alt", repair_eos(ast[1], replacement, tail_nullable),
                repair_eos(ast[2], replacement, tail_nullable))
    return (k, repair_eos(ast[1], replacement, tail_nullable))


# ---------------------------------------------------------------------------
# rendering to the library's syntax


def _tokens(ast, rnd, parent):
    """Token list.  parent in (None, 'cat', 'alt', 'mod', 'group').

    Without rnd the text reproduces the tree shape in the library's parser too
    (which nests juxtaposition to the right and '|' to the left): a same-kind
    child on the other side is parenthesised.  With rnd such parentheses are
    dropped or kept at random (the language is the same).
    """
    k = ast[0]
    if k == "sym":
        t = [ast[1]]
    elif k == "any":
        t = ["."]
    elif k == "eos":
        t = ["$"]
    elif k == "empty":
        t = []
    elif k in ("cat", "alt"):
        t = []
        for side, p in ((1, ast[1]), (2, ast[2])):
            if side == 2 and k == "alt":
                t.append("|")
            pt = _tokens(p, rnd, k)
            if p[0] == k:
                natural = (side == 2) if k == "cat" else (side == 1)
                keep = (not natural) if rnd is None else (rnd.random() < 0.3)
                if keep:
                    pt = ["("] + pt + [")"]
            t.extend(pt)
        if parent == "mod" or (parent in ("cat", "alt") and parent != k):
            t = ["("] + t + [")"]
    else:
        child = ast[1]
        inner = _tokens(child, rnd, "mod")
        if child[0] in ("opt", "star", "plus") or (child[0] == "empty"):
            inner = ["("] + inner + [")"]
        t = inner + [{"opt": "?", "star": "*", "plus": "+"}[k]]
    if rnd is not None and k != "empty" and rnd.random() < 0.12:
        t = ["("] + t + [")"]
    return t


_WORD = re.compile(r"\w+\Z")


def render(ast, rnd=None):
    """Library syntax.  rnd: random.Random for whitespace / redundant parentheses."""
    toks = _tokens(ast, rnd, None)
    out = []
    for i, t in enumerate(toks):
        if i:
            must = bool(_WORD.match(toks[i - 1]) and _WORD.match(t))
            if rnd is None:
                # canonical: one blank except directly inside parentheses / before a modifier
                sep = "" if (toks[i - 1] == "(" or t in (")", "?", "*", "+")) and not must else " "
            else:
                sep = rnd.choice(["", "", " ", " ", "  ", "\t", "\n", " \r\n "])
                if must and not sep:
                    sep = " "
            out.append(sep)
        out.append(t)
    s = "".join(out)
    if rnd is not None:
        s = rnd.choice(["", "", " ", "\n"]) + s + rnd.choice(["", "", " ", "\t"])
    return s


# ---------------------------------------------------------------------------
# our own reading of the documented syntax (used for the literal patterns of the
# repository and for hand-written replay files).  Alternation binds loosest,
# then concatenation, then the suffixes; patterns fed through here use explicit
# parentheses wherever the two binary operators meet.

_TOKEN = re.compile(r"\s*(?:(\w+)|([.$?*+|()]))")


class PatternSyntaxError(Exception):
    pass


def parse(text):
    toks = []
    pos = 0
    text = text.rstrip()
    while pos < len(text):
        m = _TOKEN.match(text, pos)
        if not m:
            raise PatternSyntaxError("bad character at %d in %r" % (pos, text))
        toks.append(m.group(1) if m.group(1) is not None else m.group(2))
        pos = m.end()
    words = [t is not None and bool(_WORD.match(t)) for t in toks]
    i = [0]

    def peek():
        return toks[i[0]] if i[0] < len(toks) else None

    def alt():
        node = cat()
        while peek() == "|":
            i[0] += 1
            node = ("alt", node, cat())
        return node

    def cat():
        node = None
        while peek() is not None and peek() not in ("|", ")"):
            p = post()
            node = p if node is None else ("cat", node, p)
        return EMPTY if node is None else node

    def post():
        t = peek()
        idx = i[0]
        i[0] += 1
        if t == "(":
            node = alt()
            if peek() != ")":
                raise PatternSyntaxError("unbalanced parentheses in %r" % text)
            i[0] += 1
        elif t == ".":
            node = ANY
        elif t == "$":
            node = EOS
        elif words[idx]:
            node = ("sym", t)
        else:
            raise PatternSyntaxError("unexpected %r in %r" % (t, text))
        if peek() in ("?", "*", "+"):
            node = ({"?": "opt", "*": "star", "+": "plus"}[peek()], node)
            i[0] += 1
            if peek() in ("?", "*", "+"):
                raise PatternSyntaxError("two modifiers in %r" % text)
        return node

    node = alt()
    if peek() is not None:
        raise PatternSyntaxError("unbalanced parentheses in %r" % text)
    return node


def mixes_without_parentheses(ast_text):
    """True if the text relies on the (undocumented) precedence of '|' over juxtaposition."""
    depth_has = [[False, False]]  # per open group: saw '|' , saw juxtaposition
    prev_atom = False
    for m in _TOKEN.finditer(ast_text):
        t = m.group(1) if m.group(1) is not None else m.group(2)
        if t == "(":
            if prev_atom:
                depth_has[-1][1] = True
            depth_has.append([False, False])
            prev_atom = False
        elif t == ")":
            g = depth_has.pop()
            if g[0] and g[1]:
                return True
            prev_atom = True
        elif t == "|":
            depth_has[-1][0] = True
            prev_atom = False
        elif t in ("?", "*", "+"):
            pass
        else:
            if prev_atom:
                depth_has[-1][1] = True
            prev_atom = True
    return depth_has[0][0] and depth_has[0][1]


# ---------------------------------------------------------------------------
# Python re translations

_CHARS = ("ABCDEFGHIJKLMNOPQRSTUVWXYZabcdefghijklmnopqrstuvwxyz0123456789"
          "ÀÁÂÃÄÅÆÇÈÉÊË")
_OTHER_CHAR = "~"


def to_re(ast, ch, anyclass, eos=r"\Z"):
    k = ast[0]
    if k == "sym":
        return ch[ast[1]]
    if k == "any":
        return anyclass
    if k == "eos":
        return eos
    if k == "empty":
        return "(?:)"
    if k == "cat":
        return to_re(ast[1], ch, anyclass, eos) + to_re(ast[2], ch, anyclass, eos)
    if k == "alt":
        return "(?:%s|%s)" % (to_re(ast[1], ch, anyclass, eos), to_re(ast[2], ch, anyclass, eos))
    return "(?:%s)%s" % (to_re(ast[1], ch, anyclass, eos), {"opt": "?", "star": "*", "plus": "+"}[k])


_UNIVERSE = {}


def universe(chars, maxlen):
    """Every string over chars of length <= maxlen, one per line (each line ends with a newline)."""
    key = (tuple(chars), maxlen)
    u = _UNIVERSE.get(key)
    if u is None:
        u = "".join("".join(t) + "\n" for n in range(maxlen + 1) for t in itertools.product(chars, repeat=n))
        _UNIVERSE[key] = u
    return u


def bulk_language(ast, ch, anyclass, chars, maxlen):
    """(M, V): M = all strings over chars of length <= maxlen that fully match (one ``re`` scan over the
    universe, each line is an independent anchored match; ``$`` becomes "end of line"), V = all their prefixes,
    i.e. the strings with a matching extension inside the universe (brute-force prefix viability)."""
    rx = re.compile("^(?:%s)(?=\n)" % to_re(ast, ch, anyclass, eos="(?=\n)"), re.M)
    M = set(m.group(0) for m in rx.finditer(universe(chars, maxlen)))
    V = set(M)
    layer = M
    while layer:
        layer = set(s[:-1] for s in layer if s) - V
        V |= layer
    return M, V


def prefix_re(ast, ch, anyclass):
    """``re`` pattern of { p : p is a prefix of a word of L(ast) } (exact when ``$`` is well placed)."""
    k = ast[0]
    if k in ("sym", "any"):
        return "(?:%s)?" % to_re(ast, ch, anyclass)
    if k in ("eos", "empty"):
        return "(?:)"
    if k == "cat":
        return "(?:%s|%s%s)" % (prefix_re(ast[1], ch, anyclass), to_re(ast[1], ch, anyclass),
                                prefix_re(ast[2], ch, anyclass))
    if k == "alt":
        return "(?:%s|%s)" % (prefix_re(ast[1], ch, anyclass), prefix_re(ast[2], ch, anyclass))
    if k == "opt":
        return prefix_re(ast[1], ch, anyclass)
    # star / plus: any number of whole iterations, then a prefix of one more
    return "(?:%s)*%s" % (to_re(ast[1], ch, anyclass), prefix_re(ast[1], ch, anyclass))


# ---------------------------------------------------------------------------
# position automaton


class Automaton(object):
    """Glushkov automaton with ``$`` as a zero-width position.

    A state is (frozenset of positions that may be matched next, accepting-as-is).
    """

    def __init__(self, ast):
        self.label = []      # position -> name | ANY-marker | EOS-marker
        self.follow = []     # position -> set of positions
        self.lastset = set()
        nul, first, last = self._build(ast)
        self.lastset = frozenset(last)
        self.follow = [frozenset(f) for f in self.follow]
        self.start = (frozenset(first), bool(nul))
        self._accept = {}
        self._viable = {}
        self._step = {}
        self.names = frozenset(l for l in self.label if l not in (WILDCARD, END_OF_SEQUENCE))

    def _build(self, n):
        k = n[0]
        if k in ("sym", "any", "eos"):
            p = len(self.label)
            self.label.append(n[1] if k == "sym" else (WILDCARD if k == "any" else END_OF_SEQUENCE))
            self.follow.append(set())
            return False, {p}, {p}
        if k == "empty":
            return True, set(), set()
        if k == "cat":
            an, af, al = self._build(n[1])
            bn, bf, bl = self._build(n[2])
            for p in al:
                self.follow[p] |= bf
            return an and bn, af | (bf if an else set()), bl | (al if bn else set())
        if k == "alt":
            an, af, al = self._build(n[1])
            bn, bf, bl = self._build(n[2])
            return an or bn, af | bf, al | bl
        an, af, al = self._build(n[1])
        if k in ("star", "plus"):
            for p in al:
                self.follow[p] |= af
        return (an if k == "plus" else True), af, al

    def accepting(self, state):
        r = self._accept.get(state)
        if r is None:
            cand, acc = state
            r = acc
            if not r:
                # end of input: "$" positions may be passed without consuming anything
                seen = set()
                todo = [p for p in cand if self.label[p] == END_OF_SEQUENCE]
                while todo and not r:
                    p = todo.pop()
                    if p in seen:
                        continue
                    seen.add(p)
                    if p in self.lastset:
                        r = True
                    todo.extend(q for q in self.follow[p] if self.label[q] == END_OF_SEQUENCE)
            self._accept[state] = r
        return r

    def step(self, state, symbol):
        """Next state, or None when no position can take the symbol."""
        key = (state, symbol if symbol in self.names else OTHER)
        if key in self._step:
            return self._step[key]
        cand, _ = state
        nxt = set()
        acc = False
        hit = False
        for p in cand:
            l = self.label[p]
            if l == END_OF_SEQUENCE:
                continue
            if l == WILDCARD or l == symbol:
                hit = True
                nxt |= self.follow[p]
                if p in self.lastset:
                    acc = True
        r = (frozenset(nxt), acc) if hit else None
        self._step[key] = r
        return r

    def alphabet(self):
        return sorted(self.names) + [OTHER]

    def viable(self, state):
        """Can an accepting state be reached (by any symbols, named or not)?"""
        if state is None:
            return False
        r = self._viable.get(state)
        if r is None:
            seen = {state}
            todo = [state]
            r = False
            while todo:
                s = todo.pop()
                if self.accepting(s):
                    r = True
                    break
                for a in self.alphabet():
                    t = self.step(s, a)
                    if t is not None and t not in seen:
                        seen.add(t)
                        todo.append(t)
            self._viable[state] = r
        return r

    def labels(self, state):
        """Concrete names / WILDCARD that have their own position available next."""
        return set(self.label[p] for p in state[0] if self.label[p] != END_OF_SEQUENCE)

    def run(self, seq):
        s = self.start
        for a in seq:
            s = self.step(s, a)
            if s is None:
                return None
        return s


# ---------------------------------------------------------------------------


class Ref(object):
    """All reference engines for one pattern."""

    BF_LIMIT = 400   # brute force viability only if (names+1)^leaves summed stays below this ...
    BF_MAXLEN = 7    # ... and the candidate strings stay short (re backtracks exponentially on nested stars)

    def __init__(self, ast, extra_symbols=()):
        self.ast = ast
        self.pattern_names = sorted(names(ast))
        known = list(self.pattern_names) + [s for s in sorted(set(extra_symbols)) if s not in names(ast)]
        if len(known) > len(_CHARS):
            raise ValueError("too many symbols")
        self.ch = dict(zip(known, _CHARS))
        used = "".join(self.ch[s] for s in known) + _OTHER_CHAR
        self.anyclass = "[%s]" % used
        self.full = re.compile(to_re(ast, self.ch, self.anyclass))
        self._pre = None
        self._aut = None
        self.nleaves = leaves(ast)
        # symbols that behave differently from each other w.r.t. this pattern
        self.ext_chars = [self.ch[s] for s in self.pattern_names] + [_OTHER_CHAR]
        total = sum(len(self.ext_chars) ** n for n in range(self.nleaves + 1))
        self.bf_feasible = total <= self.BF_LIMIT
        self._bf = {}
        self.re_cut_off = False

    def enc(self, seq):
        ch = self.ch
        return "".join(ch.get(s, _OTHER_CHAR) for s in seq)

    # -- engine 1: re.fullmatch
    def fullmatch(self, seq):
        return self.full.fullmatch(self.enc(seq)) is not None

    def fullmatch_s(self, s):
        return self.full.fullmatch(s) is not None

    # -- engine 1b: brute-force prefix viability on top of re.fullmatch
    def viable_bf_s(self, s):
        r = self._bf.get(s)
        if r is None:
            fm = self.full.fullmatch
            r = False
            for n in range(self.nleaves + 1):
                for e in itertools.product(self.ext_chars, repeat=n):
                    if fm(s + "".join(e)) is not None:
                        r = True
                        break
                if r:
                    break
            self._bf[s] = r
        return r

    def viable_bf(self, seq):
        return self.viable_bf_s(self.enc(seq))

    # -- engine 2: re.fullmatch against the prefix-closure pattern
    def viable_re(self, seq):
        if self._pre is None:
            self._pre = re.compile(prefix_re(self.ast, self.ch, self.anyclass))
        return self._pre.fullmatch(self.enc(seq)) is not None

    # -- engine 3: position automaton
    @property
    def automaton(self):
        if self._aut is None:
            self._aut = Automaton(self.ast)
        return self._aut

    # -- combined, cross-checked answers.  Python's re backtracks exponentially on some generated patterns
    # (nested repetitions of parts that can match nothing), so here every re call runs under a CPU-time alarm
    # (SRE polls for signals); a pattern whose re call is cut off is judged by the automaton alone from then on
    # and counted (self.re_cut_off).  Verdicts never depend on the alarm, only how many engines took part.
    RE_CPU_LIMIT = 0.15

    def _guarded(self, fn, *args):
        if self.re_cut_off:
            raise ReTimeout()
        try:
            return guarded_call(self.RE_CPU_LIMIT, fn, *args)
        except ReTimeout:
            self.re_cut_off = True
            raise

    def viable(self, seq):
        state = self.automaton.run(seq)
        b = self.automaton.viable(state)
        try:
            a = self._guarded(self.viable_re, seq)
            bf = self.bf_feasible and len(seq) + self.nleaves <= self.BF_MAXLEN
            c = self._guarded(self.viable_bf, seq) if bf else None
        except ReTimeout:
            return b
        if a != b or (c is not None and c != a):
            raise OracleDisagreement("viability of %r for %r: prefix-re %r automaton %r brute-force %r" % (
                seq, render(self.ast), a, b, c))
        return a

    def complete(self, seq):
        state = self.automaton.run(seq)
        b = state is not None and self.automaton.accepting(state)
        try:
            a = self._guarded(self.fullmatch, seq)
        except ReTimeout:
            return b
        if a != b:
            raise OracleDisagreement("fullmatch of %r for %r: re %r automaton %r" % (
                seq, render(self.ast), a, b))
        return a


class ReTimeout(Exception):
    pass


def _alarm(signum, frame):
    raise ReTimeout()


def _quiet_unraisable(hook):
    def filtered(unraisable):
        # a tick that lands inside a GC callback / destructor cannot propagate; the next tick will
        if unraisable.exc_type is ReTimeout:
            return
        hook(unraisable)
    filtered._vpbt = True
    return filtered


def guarded_call(limit, fn, *args, **kwargs):
    """fn(*args, **kwargs) under a CPU-time alarm (main thread only; elsewhere unguarded).

    The timer repeats every 20 ms after the limit, so a tick swallowed inside a GC callback or destructor
    is followed by another one; the timer is disarmed before the handler is restored.
    """
    import signal
    import sys
    import threading

    if threading.current_thread() is not threading.main_thread():
        return fn(*args, **kwargs)
    if not getattr(sys.unraisablehook, "_vpbt", False):
        sys.unraisablehook = _quiet_unraisable(sys.unraisablehook)
    old = signal.signal(signal.SIGVTALRM, _alarm)
    try:
        try:
            signal.setitimer(signal.ITIMER_VIRTUAL, limit, 0.02)
            return fn(*args, **kwargs)
        finally:
            while True:
                try:
                    signal.setitimer(signal.ITIMER_VIRTUAL, 0)
                    break
                except ReTimeout:
                    continue
    finally:
        signal.signal(signal.SIGVTALRM, old)


# ---------------------------------------------------------------------------
# Hypothesis strategies for pattern trees (shared by C18 and C19)

SCHEMES = (
    ("a", "b", "c", "x"),
    ("aa", "a", "a_1", "a_"),
    ("sequence_header", "padding_data", "B2", "other_unit"),
)


@st.composite
def sized_tree(draw, names3, n, top=True):
    """A tree with exactly n leaves (an empty alternative, rarely added, has none)."""
    if n == 1:
        node = draw(st.sampled_from([sym(names3[0]), sym(names3[1]), sym(names3[2]), sym(names3[0]),
                                     sym(names3[1]), ANY, ANY, EOS]))
    else:
        i = draw(st.integers(1, n - 1))
        op = draw(st.sampled_from(["cat", "cat", "alt"]))
        node = (op, draw(sized_tree(names3, i, False)), draw(sized_tree(names3, n - i, False)))
    m = draw(st.sampled_from([None, None, None, "opt", "star", "star", "plus", "empty-alt"]))
    if m == "empty-alt":
        # 'x |' and '| x': pinned by the repository's own tests; kept rare
        if draw(st.integers(0, 3)) == 0:
            node = ("alt", node, EMPTY) if draw(st.booleans()) else ("alt", EMPTY, node)
    elif m is not None:
        node = (m, node)
        if draw(st.integers(0, 7)) == 0:
            node = (draw(st.sampled_from(["opt", "star", "plus"])), node)
    return node
