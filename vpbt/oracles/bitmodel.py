"""The harness' own bit model (DESIGN 2.6): no code under test in here.

A bitstream is a Python list of bits, a position and a bounded-block counter.
The exp-Golomb coder is written from the text of SMPTE ST 2042-1 annex A.4
("interleaved exp-Golomb": the binary digits of value+1 after its leading one,
each preceded by a 0 follow bit, terminated by a 1 bit; signed values append a
sign bit, 1 = negative, to non-zero magnitudes).  Used by C20 and C21.
"""


def enc_nbits(n, v):
    if n == 0:
        return []
    return [1 if c == "1" else 0 for c in format(v, "b").zfill(n)]


def enc_uint(v):
    digits = bin(v + 1)[3:]  # binary digits of value+1 after the leading one
    out = []
    for c in digits:
        out.append(0)
        out.append(1 if c == "1" else 0)
    out.append(1)
    return out


def enc_sint(v):
    out = enc_uint(-v if v < 0 else v)
    if v != 0:
        out.append(1 if v < 0 else 0)
    return out


def dec_uint(nb):
    """nb() yields the next bit."""
    digits = "1"
    while nb() == 0:
        digits += "1" if nb() else "0"
    return int(digits, 2) - 1


def dec_sint(nb):
    v = dec_uint(nb)
    if v != 0 and nb() == 1:
        v = -v
    return v


def bits_to_int(bits):
    v = 0
    for b in bits:
        v = v * 2 + b
    return v


def pack(bits):
    """bits -> bytes, zero padded on the right to whole bytes."""
    bits = list(bits) + [0] * ((-len(bits)) % 8)
    return bytes(bits_to_int(bits[i:i + 8]) for i in range(0, len(bits), 8))


def unpack(data):
    return [(byte >> (7 - i)) & 1 for byte in bytearray(data) for i in range(8)]


def tell_of(pos):
    """bit position -> the (byte, bit) pair used by tell()/seek()."""
    return (pos // 8, 7 - (pos % 8))


def offset_of(tell):
    return tell[0] * 8 + (7 - tell[1])


class ModelEOF(Exception):
    pass


class ReadModel(object):
    """Reading: past the end of a bounded block every bit is 1 and nothing is consumed."""

    def __init__(self, bits):
        self.bits = bits
        self.pos = 0
        self.rem = None
        self.dangling = 0
        self.inside = 0

    def nb(self):
        if self.rem is not None:
            if self.rem <= 0:
                self.dangling += 1
                return 1
            self.rem -= 1
            self.inside += 1
        if self.pos >= len(self.bits):
            raise ModelEOF()
        b = self.bits[self.pos]
        self.pos += 1
        return b


class WriteModel(object):
    """Writing: past the end of a bounded block a 1 is dropped, a 0 is an error."""

    def __init__(self):
        self.bits = []
        self.pos = 0
        self.rem = None

    def put_all(self, enc):
        """False if a 0 falls past the end of the bounded block."""
        for b in enc:
            if self.rem is not None:
                self.rem -= 1
                if self.rem < 0:
                    if not b:
                        return False
                    continue
            self.bits.append(b)
            self.pos += 1
        return True
