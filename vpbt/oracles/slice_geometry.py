"""Slice geometry reference model (used by C13 and for the subband shapes in C11).

Written from the description of the transform, not from the repository's
formulas: a picture is padded up to the next multiple of 2^(dwt_depth +
dwt_depth_ho) columns and 2^dwt_depth rows; every 2-D transform level halves
both dimensions, every horizontal-only level halves the width only; the DC band
(level 0) has the size of the level-1 subbands (or of the padded picture when
there is no transform at all).  Level numbering as in the standard: levels
1..dwt_depth_ho are horizontal-only, dwt_depth_ho+1..dwt_depth_ho+dwt_depth are
2-D, the *first* analysis step producing the highest-numbered level.
"""


def next_multiple(value, unit):
    rem = value % unit
    return value if rem == 0 else value + (unit - rem)


def padded_size(w, h, dwt_depth, dwt_depth_ho):
    """(padded width, padded height) of a w x h component."""
    return (
        next_multiple(w, 2 ** (dwt_depth + dwt_depth_ho)),
        next_multiple(h, 2 ** dwt_depth),
    )


def subband_sizes(w, h, dwt_depth, dwt_depth_ho):
    """{level: (width, height)} for level 0 .. dwt_depth+dwt_depth_ho+1.

    The entry dwt_depth+dwt_depth_ho+1 is the padded picture itself (the value
    dwt_pad_addition asks the repository's subband_width/height for).
    """
    cw, ch = padded_size(w, h, dwt_depth, dwt_depth_ho)
    top = dwt_depth + dwt_depth_ho
    sizes = {top + 1: (cw, ch)}
    for level in range(top, 0, -1):
        if level > dwt_depth_ho:
            # 2-D analysis step
            if cw % 2 or ch % 2:
                raise AssertionError("model: odd size %dx%d before 2-D level %d" % (cw, ch, level))
            cw, ch = cw // 2, ch // 2
        else:
            if cw % 2:
                raise AssertionError("model: odd width %d before horizontal-only level %d" % (cw, level))
            cw = cw // 2
        sizes[level] = (cw, ch)
    sizes[0] = (cw, ch)
    return sizes


def check_tiling(bounds, length):
    """bounds: list of (start, end) per slice in slice order; length: subband extent.

    Returns None when the half-open ranges are in order, pairwise disjoint and
    cover 0..length-1 exactly once, otherwise a (kind, text) pair.
    """
    expect = 0
    for i, (a, b) in enumerate(bounds):
        if b < a:
            return ("negative-extent", "slice %d has range [%d,%d)" % (i, a, b))
        if a < expect:
            return ("overlap", "slice %d starts at %d but slice %d ended at %d" % (i, a, i - 1, expect))
        if a > expect:
            return ("gap", "slice %d starts at %d but previous coverage ended at %d" % (i, a, expect))
        expect = b
    if expect != length:
        return ("wrong-end", "last slice ends at %d, subband extent is %d" % (expect, length))
    return None


def coverage_counts(bounds, length):
    """Literal per-index coverage count, the way callers iterate range(start, end)."""
    cover = [0] * length
    outside = 0
    for a, b in bounds:
        for i in range(a, b):
            if 0 <= i < length:
                cover[i] += 1
            else:
                outside += 1
    return cover, outside
