"""Sharded execution, known-findings handling, replay tier, evidence writing."""

import hashlib
import importlib
import json
import multiprocessing
import os
import sys
import time
import traceback

from vpbt import core
from vpbt.core import Collector, Ctx

VERIF = core.VERIF
KNOWN_FILE = os.path.join(VERIF, "KNOWN_FINDINGS.txt")
# evidence/ and replays/ are written under OUT (default /verif; sensitivity runs redirect it)
OUT = os.environ.get("VPBT_OUT") or VERIF


def load_module(pid):
    core.setup_repo_path()
    return importlib.import_module("vpbt.props.%s" % pid.lower())


# --------------------------------------------------------------------------
# known findings


def load_known(pid):
    """Returns list of dicts {sig, repro, text} for 'known:' lines of property pid."""
    out = []
    if not os.path.exists(KNOWN_FILE):
        return out
    for line in open(KNOWN_FILE):
        line = line.strip()
        if not line.startswith("known:"):
            continue
        head, _, text = line[len("known:"):].partition("::")
        fields = dict(tok.split("=", 1) for tok in head.split() if "=" in tok)
        if fields.get("property") != pid:
            continue
        out.append(dict(sig=fields.get("sig"), repro=fields.get("repro"), text=text.strip()))
    return out


# --------------------------------------------------------------------------
# shard worker


def _worker(args):
    pid, spec, tier, base_seed, index, nshards, deadline = args
    try:
        # watchdog: a shard that makes no end (a spin in generated code) must become a harness error, not a hang
        import faulthandler

        limit = float(os.environ.get("VPBT_SHARD_TIMEOUT", "2700" if tier == "quick" else "14400"))
        faulthandler.dump_traceback_later(limit, exit=True)
        mod = load_module(pid)
        ctx = Ctx(tier, base_seed, index, nshards, deadline)
        mod.run_shard(spec, ctx)
        return ("ok", ctx.col.to_dict())
    except BaseException:
        return ("error", "shard %r: %s" % (spec, traceback.format_exc()))
    finally:
        import faulthandler

        faulthandler.cancel_dump_traceback_later()  # the pool re-uses this process for other shards


def write_replay(pid, failure):
    d = os.path.join(OUT, "replays", pid)
    os.makedirs(d, exist_ok=True)
    payload = dict(property=pid, bucket=failure["bucket"], sig=failure.get("sig"),
                   message=failure["message"], data=failure["data"],
                   shrunk=bool(failure.get("shrunk")))
    blob = json.dumps(payload, indent=1, sort_keys=True, default=repr)
    name = hashlib.sha1(blob.encode()).hexdigest()[:16] + ".json"
    path = os.path.join(d, name)
    with open(path, "w") as f:
        f.write(blob)
    return path


def replay_file(mod, path):
    """Re-run one saved case; returns a Collector."""
    payload = json.load(open(path))
    col = Collector()
    mod.replay(payload["data"], col)
    return col, payload


def write_evidence(pid, tier, seed, col, wall, violations, mod, extra_cov=None):
    cov = dict(
        evaluations=int(col.evaluations),
        distinct_nontrivial=int(len(col.nontrivial)),
        rule=mod.RULE,
        samples=col.samples[:10],
        labels=dict(sorted(col.labels.items())),
        known_finding_hits=int(sum(col.known_hits.values())),
        inconclusive_shards=int(col.inconclusive),
        failure_buckets={k: int(v) for k, v in col.failure_counts.items()},
    )
    if col.exhaustive is not None:
        cov["exhaustive"] = bool(col.exhaustive)
    for k, v in col.extra.items():
        cov.setdefault(k, v)
    if extra_cov:
        cov.update(extra_cov)
    ev = dict(
        property_id=pid,
        tier=tier,
        seed=int(seed),
        level=getattr(mod, "LEVEL", "exploration"),
        coverage=cov,
        assumptions=list(getattr(mod, "ASSUMPTIONS", [])),
        wall_s=round(wall, 2),
        violations=int(violations),
    )
    # minimal schema sanity (full schema validated in development with jsonschema)
    assert isinstance(cov["samples"], list)
    d = os.path.join(OUT, "evidence")
    os.makedirs(d, exist_ok=True)
    tmp = os.path.join(d, pid + ".json.tmp")
    with open(tmp, "w") as f:
        json.dump(ev, f, indent=1, sort_keys=True, default=repr)
    os.replace(tmp, os.path.join(d, pid + ".json"))
    return ev


def run_check(pid, tier, seed, procs=16, budget_s=None):
    t0 = time.time()
    mod = load_module(pid)
    known = load_known(pid)
    known_sigs = set(k["sig"] for k in known)
    total = Collector()
    violations = []  # (bucket, replay path, message)

    # ---- replay tier: known-finding reproducers and committed regressions
    for k in known:
        still = False
        if k["repro"]:
            path = os.path.join(VERIF, k["repro"])
            col, payload = replay_file(mod, path)
            still = any(f.get("sig") == k["sig"] for f in col.failures.values())
            for b, f in col.failures.items():
                if f.get("sig") not in known_sigs:
                    violations.append((b, path, f["message"]))
        if still or not k["repro"]:
            print("KNOWN-FINDING: property=%s %s" % (pid, k["text"]))
        else:
            print("NOTE: known finding sig=%s no longer reproduces (%s)" % (k["sig"], k["text"]))
    regdir = os.path.join(VERIF, "regressions", pid)
    nreg = 0
    known_repros = set(os.path.realpath(os.path.join(VERIF, k["repro"])) for k in known if k["repro"])
    if os.path.isdir(regdir):
        for name in sorted(os.listdir(regdir)):
            path = os.path.join(regdir, name)
            if not name.endswith(".json") or os.path.realpath(path) in known_repros:
                continue
            nreg += 1
            col, payload = replay_file(mod, path)
            total.evaluations += max(col.evaluations, 1)
            for b, f in col.failures.items():
                if f.get("sig") in known_sigs:
                    continue
                violations.append((b, path, f["message"]))
    total.extra["regressions_replayed"] = nreg

    # ---- generated search
    specs = list(mod.shards(tier))
    deadline = (t0 + budget_s) if budget_s else None
    jobs = [(pid, s, tier, seed, i, len(specs), deadline) for i, s in enumerate(specs)]
    results = []
    if procs <= 1 or len(jobs) <= 1:
        results = [_worker(j) for j in jobs]
    else:
        from concurrent.futures import ProcessPoolExecutor
        from concurrent.futures.process import BrokenProcessPool

        ctxm = multiprocessing.get_context("fork")
        try:
            with ProcessPoolExecutor(min(procs, len(jobs)), mp_context=ctxm) as pool:
                results = list(pool.map(_worker, jobs))
        except BrokenProcessPool:
            sys.stderr.write("HARNESS ERROR in %s: a shard process died (watchdog timeout or crash)\n" % pid)
            return 2
    errors = [r[1] for r in results if r[0] == "error"]
    if errors:
        sys.stderr.write("HARNESS ERROR in %s:\n%s\n" % (pid, errors[0]))
        return 2
    for _, d in results:
        total.merge(d)

    for bucket, f in sorted(total.failures.items()):
        if f.get("sig") in known_sigs and f.get("sig") is not None:
            total.known_hits[f["sig"]] += total.failure_counts.get(bucket, 1)
            continue
        path = write_replay(pid, f)
        violations.append((bucket, path, f["message"]))

    wall = time.time() - t0
    exh = getattr(mod, "EXHAUSTIVE", None)
    if callable(exh) and total.exhaustive is None:
        total.exhaustive = bool(exh(tier))
    write_evidence(pid, tier, seed, total, wall, len(violations), mod)
    seen = set()
    for bucket, path, msg in violations:
        if (bucket, path) in seen:
            continue
        seen.add((bucket, path))
        print("VIOLATION property=%s replay=%s" % (pid, path))
        print("  bucket=%s :: %s" % (bucket, msg.splitlines()[0][:300] if msg else ""))
    print("%s %s seed=%d: %d evaluations, %d distinct non-trivial, %d violation bucket(s), "
          "%d known-finding hits, %.1fs" % (pid, tier, seed, total.evaluations, len(total.nontrivial),
                                            len(seen), sum(total.known_hits.values()), wall))
    return 1 if violations else 0


def run_replay(pid, path):
    mod = load_module(pid)
    col, payload = replay_file(mod, path)
    known_sigs = set(k["sig"] for k in load_known(pid))
    bad = [f for f in col.failures.values() if f.get("sig") not in known_sigs or f.get("sig") is None]
    for f in col.failures.values():
        print("  replayed failure bucket=%s sig=%s :: %s" % (f["bucket"], f.get("sig"), f["message"][:500]))
    if bad:
        print("VIOLATION property=%s replay=%s" % (pid, path))
        return 1
    print("%s replay %s: no violation" % (pid, path))
    return 0
