#!/venv/bin/python
"""Sensitivity self-test (DESIGN 2.9): realistic one-line mutants applied to a scratch copy of /repo.

usage: mutants.py [Cnn ...] [--jobs N] [--list]
For every mutant the listed property's quick check must exit 1 (VIOLATION). Scratch copies live under /tmp and
are removed. Not registered in MANIFEST (it edits copies of the repository, never /repo).
"""
import argparse
import os
import shutil
import subprocess
import sys
import tempfile
from concurrent.futures import ThreadPoolExecutor

M = []


def m(props, name, file, old, new, count=1):
    M.append(dict(props=props.split(","), name=name, edits=[(file, old, new, count)], file=file))


def m_multi(props, name, edits):
    """edits: [(file, old, new), ...] applied together (cooperating edits)"""
    M.append(dict(props=props.split(","), name=name, edits=[(f, o, n, None) for f, o, n in edits], file=edits[0][0]))


ENC = "vc2_conformance/encoder/pictures.py"
STREAM = "vc2_conformance/decoder/stream.py"
ASSERT = "vc2_conformance/decoder/assertions.py"
FRAG = "vc2_conformance/decoder/fragment_syntax.py"
SEQH = "vc2_conformance/decoder/sequence_header.py"

# ---- C01
m("C01", "no-interleave-check", STREAM, 'if state["_fragment_slices_remaining"] != 0:\n                raise PictureInterleavedWithFragmentedPicture(',
  'if False:\n                raise PictureInterleavedWithFragmentedPicture(')
m("C01", "picnum-mask-16", ASSERT, '(state["_last_picture_number"] + 1) & 0xFFFFFFFF', '(state["_last_picture_number"] + 1) & 0xFFFF')
m("C01", "no-odd-first-field", ASSERT, "if early_field and not even_number:", "if False:")
m("C01", "fragment-zero-next-offset-rejected", STREAM, "    elif not (is_picture(state) or is_fragment(state)):", "    elif not is_picture(state):")
m("C01", "seqhdr-compare-lt", SEQH, 'if this_sequence_header_bytes != state["_last_sequence_header_bytes"]:',
  'if this_sequence_header_bytes < state["_last_sequence_header_bytes"]:')
m("C01", "no-incomplete-fragment-check", STREAM, '    if state["_fragment_slices_remaining"] != 0:\n        raise SequenceContainsIncompleteFragmentedPicture(',
  '    if False:\n        raise SequenceContainsIncompleteFragmentedPicture(')
m("C01,C18,C19", "revert-D3", "vc2_conformance/symbol_re.py", "        self.transitions[None].add(dest_node)\n\n    def equivalent_nodes",
  "        self.transitions[None].add(dest_node)\n        dest_node.transitions[None].add(self)\n\n    def equivalent_nodes")
m("C01", "frag-contiguity-x-only", FRAG, 'state["fragment_x_offset"] != expected_fragment_x_offset\n            or state["fragment_y_offset"] != expected_fragment_y_offset',
  'state["fragment_x_offset"] != expected_fragment_x_offset')
m("C01", "odd-fields-check-off", STREAM, 'if state["_num_pictures_in_sequence"] % 2 != 0:', 'if False:')
m("C01", "version-minimal-skip", ASSERT, "    if major_version > expected_major_version:", "    if major_version > expected_major_version + 1:")
# ---- C02
m("C02", "revert-D1", STREAM, "                true_previous_parse_offset,\n            )", "                true_parse_offset,\n            )")
m("C02", "revert-D2", FRAG, 'if "_picture_initial_fragment_offset" not in state:', 'if False:')
m("C02", "no-profile-guard", STREAM, 'if "profile" in state:', 'if True:')
m("C02", "explain-bad-key", "vc2_conformance/decoder/exceptions.py", "class MissingNextParseOffset(ConformanceError):",
  "class MissingNextParseOffset(ConformanceError):\n    def bitstream_viewer_hint(self):\n        return '{cmd} {file} {nosuchkey}'\n")
# ---- C03 / C04 / C14
m("C03", "etp-depth-ho-from-depth", ENC, 'etp["dwt_depth_ho"] = codec_features["dwt_depth_ho"]', 'etp["dwt_depth_ho"] = codec_features["dwt_depth"]')
m("C03", "fragment-y-offset-dropped", ENC, "fragment_y_offset=sy,", "fragment_y_offset=0,")
m("C03,C14", "safe-scaler-off-by-one", ENC, "    return max(1, slice_size_scaler)", "    return max(1, slice_size_scaler - 1)")
m("C04", "dc-prediction-forwards", ENC, "    for y in reversed(range(0, height(band))):\n        for x in reversed(range(0, width(band))):",
  "    for y in range(0, height(band)):\n        for x in range(0, width(band)):")
m("C04,C11", "h-analysis-no-shift", "vc2_conformance/pseudocode/picture_encoding.py",
  "    Returns a tuple (L_data, H_data)\n    \"\"\"\n    # Bit shift, if required\n    shift = filter_bit_shift(state)",
  "    Returns a tuple (L_data, H_data)\n    \"\"\"\n    # Bit shift, if required\n    shift = 0")
m("C14", "fit-strict-less", ENC, "        if total_length <= target_size:", "        if total_length < target_size:")
m("C14", "search-starts-at-min+1", ENC, "    for qindex in count(minimum_qindex):", "    for qindex in count(minimum_qindex + 1):")
m("C14", "ld-length-bits-omitted", ENC, "            target_size -= intlog2(target_size)  # slice_y_length field", "            pass")
m("C14", "coeff-bits-forget-negative-sign", ENC, "            num_bits += signed_exp_golomb_length(coeff)",
  "            num_bits += signed_exp_golomb_length(coeff) - (1 if coeff < 0 else 0)")
# ---- C06
m("C06", "revert-D5", "vc2_conformance/bitstream/vc2.py", '"bytes", max(0, state["next_parse_offset"] - PARSE_INFO_HEADER_BYTES)',
  '"bytes", state["next_parse_offset"] - PARSE_INFO_HEADER_BYTES', count=2)
# ---- C26
m("C26", "friendly-enum-formatter-unguarded", "vc2_conformance/fixeddict.py",
  "                try:\n                    return enum_type(value).name\n                except ValueError:\n                    return None",
  "                return enum_type(value).name")
# ---- C25
m("C25", "picture-index-incremented-first", "vc2_conformance/scripts/vc2_bitstream_validator.py",
  "        filename = self._output_filename % (self._next_picture_index,)\n        self._next_picture_index += 1",
  "        self._next_picture_index += 1\n        filename = self._output_filename % (self._next_picture_index,)")
m("C25", "return-0-on-error", "vc2_conformance/scripts/vc2_bitstream_validator.py",
  '            self._print_error("non-conformant bitstream (see above)")\n            return 2',
  '            self._print_error("non-conformant bitstream (see above)")\n            return 0')


def run_one(mut, prop, tier, seed):
    d = tempfile.mkdtemp(prefix="mut-", dir="/tmp")
    try:
        for sub in ("vc2_conformance", "tests", "docs"):
            shutil.copytree(os.path.join("/repo", sub), os.path.join(d, sub), ignore=shutil.ignore_patterns("__pycache__"))
        for file, old, new, count in mut["edits"]:
            p = os.path.join(d, file)
            s = open(p).read()
            if (count is not None and s.count(old) != count) or s.count(old) == 0:
                return "NOT-APPLIED (%d occurrences)" % s.count(old), ""
            open(p, "w").write(s.replace(old, new))
        env = dict(os.environ, VPBT_REPO=d, VPBT_OUT=d, VERIF_SEED=str(seed))
        # a mutant may make the code under test spin (e.g. a rate-control search that never terminates):
        # bound the run and kill the whole process group; a timeout counts as "caught:hang" only if noted
        import signal

        env["VPBT_SHARD_TIMEOUT"] = os.environ.get("MUT_SHARD_TIMEOUT", "900")
        pr = subprocess.Popen(["/verif/check", prop, "--tier", tier, "--procs", os.environ.get("MUT_PROCS", "8")], env=env,
                              cwd="/verif", stdout=subprocess.PIPE, stderr=subprocess.PIPE, text=True, start_new_session=True)
        try:
            out, err = pr.communicate(timeout=float(os.environ.get("MUT_TIMEOUT", "1800")))
        except subprocess.TimeoutExpired:
            os.killpg(pr.pid, signal.SIGKILL)
            pr.communicate()
            return "TIMEOUT", "check did not finish (mutant makes the code under test spin?)"

        class R(object):
            pass

        r = R()
        r.returncode, r.stdout, r.stderr = pr.returncode, out, err
        buckets = [l.strip()[:150] for l in r.stdout.splitlines() if l.startswith("  bucket")]
        status = {0: "MISSED", 1: "caught", 2: "HARNESS-ERROR"}.get(r.returncode, "exit %d" % r.returncode)
        detail = buckets[0] if buckets else (r.stderr.strip().splitlines()[-1][:200] if r.returncode == 2 and r.stderr.strip() else "")
        return status, detail
    finally:
        shutil.rmtree(d, ignore_errors=True)


def main():
    ap = argparse.ArgumentParser()
    ap.add_argument("props", nargs="*")
    ap.add_argument("--jobs", type=int, default=2)
    ap.add_argument("--tier", default="quick")
    ap.add_argument("--seed", type=int, default=1)
    ap.add_argument("--list", action="store_true")
    ap.add_argument("--only", default=None, help="substring of mutant name")
    a = ap.parse_args()
    # mutant tables contributed by other modules
    # mutant tables contributed by the builders of C15 / C16: MUTANTS = [(name, [(file, old, new), ...]), ...]
    for prop, fname in (("C15", "mutants_c15.py"), ("C16", "mutants_c16.py")):
        extra = os.path.join(os.path.dirname(os.path.realpath(__file__)), fname)
        if os.path.exists(extra):
            ns = {}
            exec(compile(open(extra).read(), extra, "exec"), ns)
            for name, edits in ns["MUTANTS"]:
                m_multi(prop, name, edits)
    todo = []
    for mut in M:
        for prop in mut["props"]:
            if a.props and prop not in a.props:
                continue
            if a.only and a.only not in mut["name"]:
                continue
            todo.append((mut, prop))
    if a.list:
        for mut, prop in todo:
            print(prop, mut["name"], mut["file"])
        return 0
    bad = 0
    with ThreadPoolExecutor(a.jobs) as ex:
        futs = [(mut, prop, ex.submit(run_one, mut, prop, a.tier, a.seed)) for mut, prop in todo]
        for mut, prop, f in futs:
            status, detail = f.result()
            print("%-4s %-34s %-14s %s" % (prop, mut["name"], status, detail), flush=True)
            bad += status != "caught"
    print("%d mutant runs, %d not caught" % (len(todo), bad))
    return 1 if bad else 0


if __name__ == "__main__":
    sys.exit(main())
