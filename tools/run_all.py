#!/venv/bin/python
"""Run every check claimed in MANIFEST.json (quick or thorough) in sequence against /repo and summarise.
usage: run_all.py [--tier quick|thorough] [--seed N] [Cnn ...]   (evidence files are rewritten by the checks)"""
import argparse, json, os, subprocess, sys, time
HERE = os.path.dirname(os.path.dirname(os.path.realpath(__file__)))
ap = argparse.ArgumentParser(); ap.add_argument("ids", nargs="*"); ap.add_argument("--tier", default="quick"); ap.add_argument("--seed", default="1")
a = ap.parse_args()
m = json.load(open(os.path.join(HERE, "MANIFEST.json")))
bad = 0
for c in m["checks"]:
    pid = c["property_id"]
    if a.ids and pid not in a.ids:
        continue
    cmd = c["quick_cmd"] if a.tier == "quick" else c.get("thorough_cmd", c["quick_cmd"])
    t = time.time()
    r = subprocess.run(cmd, shell=True, cwd=HERE, env=dict(os.environ, VERIF_SEED=a.seed), capture_output=True, text=True)
    last = [l for l in r.stdout.splitlines() if l.startswith(pid)][-1:] or [r.stderr.strip()[-300:]]
    kn = sum(1 for l in r.stdout.splitlines() if l.startswith("KNOWN-FINDING"))
    print("%s exit=%d known=%d wall=%.0fs :: %s" % (pid, r.returncode, kn, time.time() - t, last[0]), flush=True)
    for l in r.stdout.splitlines():
        if l.startswith("VIOLATION") or l.startswith("  bucket"):
            print("    " + l[:300])
    bad += r.returncode != 0
sys.exit(1 if bad else 0)
