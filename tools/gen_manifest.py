#!/venv/bin/python
"""Regenerates /verif/MANIFEST.json from the table below (run after adding a check)."""
import json
import os

HERE = os.path.dirname(os.path.dirname(os.path.realpath(__file__)))

# id -> (technique, level text, level_note, design_ref)
CHECKS = {}


def add(pid, technique, text, note, engine="hypothesis+enumeration"):
    CHECKS[pid] = dict(technique=technique, text=text, note=note, engine=engine)


add("C12",
    "bounded exhaustive enumeration + Hypothesis-generated big integers against a reference quantiser table",
    "Exploration: every qindex 0..255 (1023 thorough) x a dense window of coefficients around each multiple of the "
    "quantisation step is enumerated, unbounded integers to 2^200 are generated, and both monotonicity claims are "
    "enumerated to index 2047 (8191). An arithmetic slip in quantise/dequantise/factor/offset shows up within the window; "
    "the property is over all integers so this is evidence, not proof.",
    "Trusts the harness' transcription of the four rational constants of ST 2042-1 13.3.2 (cross-checked against the code) "
    "and Python integer arithmetic.")

ALL = ["C%02d" % i for i in range(1, 29)]


def main():
    checks = []
    for pid in ALL:
        if pid not in CHECKS:
            continue
        c = CHECKS[pid]
        checks.append(dict(
            property_id=pid,
            quick_cmd="./check %s --tier quick" % pid,
            thorough_cmd="./check %s --tier thorough" % pid,
            evidence_file="evidence/%s.json" % pid,
            replay_cmd_template="./check %s --replay {path}" % pid,
            engine=c["engine"],
            level_claimed=dict(category="exploration", text=c["text"], design_ref="DESIGN.md section 4, %s" % pid),
            level_note=c["note"],
            technique=c["technique"],
        ))
    na = [dict(property_id=p, reason="check not built yet in this phase (planned in DESIGN.md section 4); not claimed until its check exists and is quiet on the unchanged tree")
          for p in ALL if p not in CHECKS]
    m = dict(
        version=1,
        setup_cmd="/venv/bin/python -c 'import hypothesis' 2>/dev/null || /venv/bin/pip install --no-index --find-links /opt/veriftools/wheels --target /verif/.deps hypothesis",
        hooks=dict(
            guard="VC2_CONFORMANCE_VERIF",
            enable="no source hooks: checks import /repo's working tree directly (editable install / sys.path) and rebind module globals in-process",
            baseline_off_cmd="cd /repo && /venv/bin/python -m pytest -ra -q -p no:cacheprovider --timeout=900 --continue-on-collection-errors",
            source_commits=[],
            add_only=True,
        ),
        engines=[
            dict(name="vpbt", path="vpbt/", serves_properties=sorted(CHECKS),
                 kind_free_text="property-based testing harness: Hypothesis strategies/state machines, exhaustive enumeration of finite boxes, sharded over 16 processes, explicit oracles, bucketed failures, replay files"),
        ],
        checks=checks,
        notes="All checks: ./check <id> --tier quick|thorough; VERIF_SEED honoured; exit 2 = harness error (no verdict). Known findings: KNOWN_FINDINGS.txt. See DESIGN.md.",
        not_applicable=na,
    )
    with open(os.path.join(HERE, "MANIFEST.json"), "w") as f:
        json.dump(m, f, indent=1)
        f.write("\n")
    print("claimed:", sorted(CHECKS), "not yet:", len(na))


if __name__ == "__main__":
    main()
