#!/venv/bin/python
"""Regenerates /verif/MANIFEST.json from the table below (run after adding a check)."""
import json
import os

HERE = os.path.dirname(os.path.dirname(os.path.realpath(__file__)))

# id -> (technique, level text, level_note, design_ref)
CHECKS = {}



def add(pid, technique, text, note, engine="hypothesis+enumeration", ready=True):
    CHECKS[pid] = dict(technique=technique, text=text, note=note, engine=engine, ready=ready)


add("C01", "model-based testing: generated data-unit histories vs a from-scratch stream-structure model (differential verdict)",
    "Exploration: ~8k (quick) / ~770k (thorough) abstract histories (valid skeleton + 0-2 injected defects, a fragment-focused mode, or random orderings) over "
    "profiles, coding modes, versions 1-4, levels 0/1-7/64-66, offsets correct/zero/wrong, picture-number patterns and fragment shapes are "
    "assembled from individually valid unit blobs and the validator's accept/reject verdict must equal an independent model's; any "
    "non-ConformanceError is a violation. Both verdict directions are checked, so a rule that is dropped, weakened or over-strict shows up.",
    "Trusts the harness' stream model (oracles/stream_model.py, hand-translated level patterns) and a permissive level-constraint column "
    "appended in-process; unit blobs come from the encoder of the tree under test (C03 judges them).")
add("C02", "structure-aware mutation fuzzing (byte-, bit-field-, field- and unit-level) + coverage-guided fuzzing (atheris) with exception bucketing",
    "Exploration: ~30k (quick) / ~380k generated + ~640k coverage-guided (thorough) byte strings derived from 34 valid streams by stacked byte mutations, field-aware bit "
    "splices (incl. exp-Golomb values of up to 40000 bits), description-level field/unit mutations, extra padding/auxiliary payload units, re-sized low-delay slices and random data are run through init_io+parse_stream; outcome must be accept, "
    "ConformanceError (whose explain/str/offending_offset/viewer-hint must work) or out-of-scope; crashes are bucketed by root cause.",
    "Size guard (per-field bounds) excludes streams declaring huge pictures. Thorough tier adds 16 coverage-guided libFuzzer jobs (atheris, oracle inside the target, exceptions bucketed) from empty and valid-stream corpora; quick tier is generator-only.")
add("C03", "generated configurations: encode -> serialise -> validate round trip with format oracle",
    "Exploration: ~2.6k (quick) / ~28k (thorough) valid configurations constructed by Hypothesis x 1-3 pictures x numbering choice; the "
    "validator must accept and return the configured 20 video parameters, coding mode, picture count, order and numbers.",
    "Valid-by-construction configurations only (DESIGN 7.1); lossy budgets with no representable qindex are out of domain (harness size model).")
add("C04", "generated configurations: encode -> decode exactness oracle (round trip)",
    "Exploration: lossless and big-budget lossy configurations (~2.4k quick / ~20k thorough) with extreme/noise/constant pictures; decoded "
    "samples must equal the input whenever every slice has qindex 0.",
    "qindex values are read from the encoder's own description.")
add("C05", "generated configurations: run all decoder test-case generators; conformance + metamorphic content relations",
    "Exploration: 48 (quick) / ~1.2k (thorough) regular configurations (every fourth shard: one large slice of 24x24..48x48 samples), every registered generator (~55 test cases per configuration): each "
    "stream must validate with the configured format, names unique, mid-grey cases exactly mid-grey, numbering cases as documented, "
    "re-encoded-header cases equal to the plain encoding of the same source.",
    "16x16 substitute natural pictures; signal_range only for cheap wavelet/depth classes; D7 is a listed known finding.")
add("C06", "round-trip oracle (deserialise -> serialise -> deserialise) over mutated streams + coverage-guided fuzzing (atheris) in thorough",
    "Exploration: ~13k (quick) / ~128k generated + ~480k coverage-guided (thorough) mutated/valid/random byte strings; every one the Deserialiser parses to completion must "
    "re-serialise to identical bytes and re-deserialise to an equal description.",
    "Only completed parses are judged; size guard on the (de)serialiser's slice loops.")
add("C07", "generated descriptions with explicit/AUTO/omitted fields vs an autofill reference model",
    "Exploration: ~8k (quick) / ~256k (thorough) stream descriptions; output bytes are deserialised and every explicit value, default, AUTO "
    "offset, AUTO picture number, AUTO major_version (harness' own version table) and extended-transform-parameter removal is compared with the model.",
    "Output positions come from the repository's Deserialiser; defaults from vc2_default_values.")
add("C08", "differential: validator's decoded transform data vs harness model fed by the Deserialiser's description",
    "Exploration: ~1.9k (quick) / ~17k (thorough) conformant streams incl. re-packed extreme/dangling payloads and (a quarter) streams of 2-3 sequences with different formats; header values, parameters, "
    "matrices and every dequantised, DC-predicted coefficient must agree between the two parsers.",
    "Validator state captured by rebinding decoder.stream.picture_decode in-process; harness has its own geometry/dequantiser.")
add("C09", "generated accepted streams with extreme payloads; validity predicate on every output picture",
    "Exploration: ~1.9k (quick) / ~24k (thorough) accepted streams weighted to extreme coefficients/qindex; every output picture must have "
    "the exact dimensions, int samples within depth, coded picture number and there must be one picture per (completed) picture.",
    "Dimensions/depths recomputed by the harness from the deserialised header.")
add("C10", "metamorphic: concatenation of member streams vs members alone",
    "Exploration: ~1.9k (quick) / ~30k (thorough) lists of 1-5 member streams (corpus, random configurations, at most one non-conformant delimited member: bit-field mutant, over-version, or cut short so that only an end-of-sequence rule fails "
    "); verdict and output pictures of the concatenation must equal the composition of the members' own.",
    "Member verdicts are the validator's own on each member alone.")
add("C11", "exhaustive filter-pair x depth enumeration + generated pictures; transform round trip and subband-shape model",
    "Exploration: all 49 filter pairs x 25 depth pairs with several pictures each plus Hypothesis-drawn sizes/contents up to +-2^200; "
    "pad+dwt+idwt+unpad (and forward_wavelet_transform + inverse_wavelet_transform) must be the identity and subband shapes must match the slice geometry and the harness model.",
    "Harness subband model in oracles/slice_geometry.py; padding sample values are not examined.")
add("C12", "bounded exhaustive enumeration + Hypothesis-generated big integers against a reference quantiser table",
    "Exploration: every qindex 0..255 (1023 thorough) x a dense window of coefficients around each multiple of the quantisation step is "
    "enumerated, unbounded integers to 2^200 are generated, and both monotonicity claims are enumerated to index 2047 (8191).",
    "Trusts the harness' transcription of the four rational constants of ST 2042-1 13.3.2 and Python integer arithmetic.")
add("C13", "exhaustive box enumeration + generated large values against an interval-arithmetic model",
    "Exploration: exhaustive 1-D box (size 1-96, depths 0-4, slices 1-100, every level; larger in thorough), drawn sizes to 2^40, 2-D states for "
    "the same-dimensions flag, slice_bytes exhaustive small box + values to 2^200: tiling, subband sizes, flag and byte sums checked against the harness model.",
    "Model in oracles/slice_geometry.py; flag read as 'identical (w,h) in every component and level'.")
add("C14", "generated lossy configurations vs a reference size model (minimal-qindex and budget oracle)",
    "Exploration: ~1.8k (quick) / ~29k (thorough) lossy LD/HQ cases with minimum_qindex / scaler overrides; per slice: fits at q, not at q-1, "
    "q >= minimum, coefficients equal harness quantisation, field widths, budgets, measured slice-region sizes, stream validates.",
    "Unquantised coefficients from transform_and_slice_picture; offsets measured with MonitoredDeserialiser.")
add("C24", "generated schedules of real worker processes (orders, batches, hash seeds) vs serial run; disjoint-write-set invariant",
    "Exploration: 5 (quick) / 48 (thorough) cases = (3 configurations dealt from seeded permutations of 15 variants, schedule); output trees (path -> SHA-256) of the scheduled concurrent "
    "worker processes, of two serial runs under different PYTHONHASHSEED and of a one-at-a-time replay must be identical and write sets disjoint.",
    "Order, batching and hash seeds are generated; OS-level interleaving inside a batch is not controlled (disjoint write sets are the argument for arbitrary interleavings).")
add("C25", "mutated/valid streams through the validator CLI in-process vs direct decoder run",
    "Exploration: ~3k (quick) / ~96k (thorough) files x output patterns x flags: exit status, located explanation sections, and the written "
    "raw/json pairs (count, numbering, content via file_format.read) must match a direct parse_stream of the same bytes; never status 3.",
    "Reference verdict is the repository's own parse_stream.")
add("C26", "mutation fuzzing of the viewer CLI in-process with drawn display options",
    "Exploration: ~7k (quick) / ~96k (thorough) byte strings x option sets; exit status must be in {0,2,3,4}, never 255 or an escaping exception.",
    "Size guard trips on transform_data/fragment_data of the (de)serialiser.")

add("C15", "generated video formats near every base format x all alternative header encodings; validator decode equality",
    "Exploration: formats perturbed from each base video format (and real levels built from the level table) x up to 40 headers from "
    "iter_sequence_headers each; every header must be accepted under the level and decode to the configured parameters.",
    "Real-level configurations are constructed from the level table; levels 64/65 conflict is a listed known finding.", ready=True)
add("C16", "generated synthetic level tables + ordering patterns substituted in-process; encoder-or-error vs validator",
    "Exploration: synthetic single-column level tables restricting encoder-owned choices and encoder-checked keys with ordering patterns; "
    "make_sequence either raises UnsatisfiableCodecFeaturesError or the stream validates under the same tables.",
    "Caller-owned unchecked keys are explored in a diagnostic stratum only (documented contract).", ready=True)
add("C17", "stateful model-based testing (ValueSet op sequences) + generated tables/CSV vs set models",
    "Exploration: rule-based machines over value sets vs Python sets; random tables vs a brute-force allowed-combination model; CSV text rendered from a table model and read back.",
    "No inverted ranges / negative CSV numbers (outside documented format); tables without catch-all columns for the equivalences.", ready=True)
add("C18", "exhaustive pattern-AST x sequence box + generated larger patterns vs Python re reference with brute-force viability",
    "Exploration: every pattern AST up to a bounded size over a small alphabet x every short sequence (exhaustive box), larger generated patterns, and the real level/test-case patterns over all data-unit names: match_symbol, is_complete and valid_next_symbols against the reference.",
    "Reference = Python re over one character per symbol; '$' only where nothing mandatory follows.", ready=True)
add("C19", "generated required-lists x pattern sets vs brute-force reference search (soundness, completeness, minimality)",
    "Exploration: required lists x 1-2 generated patterns x depth limits, plus real level/test-case pattern combinations; result must be a sound supersequence of minimal length, impossibility only when the reference finds none. D4 (greedy cut) is a listed known finding with a semantic signature.",
    "Reference enumerates supersequences up to a bound; known-finding signature defined over the greedy-constrained solution space.", ready=True)
add("C20", "stateful model-based testing of writer/reader op sequences + exhaustive bit strings vs a bit-list model",
    "Exploration: files of 64-256 KiB read to the end by both readers, exhaustive in-byte seek-back/overwrite enumeration (506k cases), ~25k op-sequence machines (writer primitives incl. out-of-range values, bounded blocks, seeks) read back by both readers, exhaustive 0-2 byte files x block lengths x read programs on both readers, exp-Golomb length functions to 2^300.",
    "Reader agreement inside blocks only for lengths >= 0; writer seek only in its caller's pattern.")
add("C21", "generated serdes programs interpreted by a reference interpreter (round trip, missing/unused, reuse)",
    "Exploration: ~20k (quick) / 800k (thorough) random description programs (primitives, lists, typed subcontexts, bounded blocks, alignment, computed values, data-dependent control flow) with the three oracle parts of DESIGN C21 plus a non-list value under a list target.",
    "byte_align only outside blocks; blocks not nested.")
add("C22", "generated regular video formats x every picture generator; validity predicate",
    "Exploration: regular formats over sizes, subsampling, scan/coding modes, signal ranges, colour specs x all synthetic generators: count, numbering, exact sizes, int samples in range.",
    "Regular formats only (property's own domain).", ready=True)
add("C23", "generated pictures/metadata: file round trip + comparison tool vs own difference count",
    "Exploration: formats with depths 1-64, extremes, picture numbers to 2^32-1; write/read identity, file size, and picture-compare exit codes/counts vs the harness' own.",
    "Scripts driven through main() in-process.", ready=True)
add("C27", "stateful model-based testing of every fixeddict type vs a model dict; pickle/deepcopy round trips",
    "Exploration: rule-based machines over all library fixeddict types with declared and undeclared keys (construction, item assignment, setdefault, update, |=, copy, del/pop/clear, pickle protocols 0-5).",
    "Two-argument setdefault only.", ready=True)
add("C28", "grammar/mutation-based CSV generation vs documented-domain predicate",
    "Exploration: cell/row/column mutations of the sample CSVs and random CSV through the CLI's file mode: result in documented domain or InvalidCodecFeaturesError, nothing else.",
    "Text handed over through a file opened as the CLI does.", ready=True)

ALL = ["C%02d" % i for i in range(1, 29)]


def main():
    checks = []
    for pid in ALL:
        if pid not in CHECKS or not CHECKS[pid].get("ready", True):
            continue
        c = CHECKS[pid]
        checks.append(dict(
            property_id=pid,
            quick_cmd="./check %s --tier quick" % pid,
            thorough_cmd="./check %s --tier thorough" % pid,
            evidence_file="evidence/%s.json" % pid,
            replay_cmd_template="./check %s --replay {path}" % pid,
            engine=c["engine"],
            level_claimed=dict(category="exploration", text=c["text"], design_ref="DESIGN.md section 4, %s" % pid),
            level_note=c["note"],
            technique=c["technique"],
        ))
    na = [dict(property_id=p, reason="check not built yet in this phase (planned in DESIGN.md section 4); not claimed until its check exists and is quiet on the unchanged tree")
          for p in ALL if p not in CHECKS or not CHECKS[p].get("ready", True)]
    m = dict(
        version=1,
        setup_cmd="(/venv/bin/python -c 'import hypothesis' 2>/dev/null || /venv/bin/pip install -q --no-index --find-links /opt/veriftools/wheels --target .deps hypothesis) && (PYTHONPATH=.deps /venv/bin/python -c 'import atheris' 2>/dev/null || /venv/bin/pip install -q --no-index --find-links /opt/veriftools/wheels --target .deps atheris || true)",
        hooks=dict(
            guard="VC2_CONFORMANCE_VERIF",
            enable="no source hooks: checks import /repo's working tree directly (editable install / sys.path) and rebind module globals in-process",
            baseline_off_cmd="cd /repo && /venv/bin/python -m pytest -ra -q -p no:cacheprovider --timeout=900 --continue-on-collection-errors",
            source_commits=[],
            add_only=True,
        ),
        engines=[
            dict(name="atheris-target", path="vpbt/fuzz/validator_target.py", serves_properties=["C02", "C06"], kind_free_text="libFuzzer (atheris) target with the C02/C06 oracles inside; used by the thorough tier"),
            dict(name="vpbt", path="vpbt/", serves_properties=sorted(p for p in CHECKS if CHECKS[p].get("ready", True)),
                 kind_free_text="property-based testing harness: Hypothesis strategies/state machines, exhaustive enumeration of finite boxes, sharded over 16 processes, explicit oracles, bucketed failures, replay files"),
        ],
        checks=checks,
        notes="All checks: ./check <id> --tier quick|thorough; VERIF_SEED honoured; exit 2 = harness error (no verdict). Known findings: KNOWN_FINDINGS.txt. See DESIGN.md.",
        not_applicable=na,
    )
    with open(os.path.join(HERE, "MANIFEST.json"), "w") as f:
        json.dump(m, f, indent=1)
        f.write("\n")
    print("claimed:", sorted(CHECKS), "not yet:", len(na))


if __name__ == "__main__":
    main()
