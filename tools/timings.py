#!/venv/bin/python
"""Print a markdown table of what the last quick (evidence/) and thorough (thorough/evidence/) runs covered."""
import json
import os

HERE = os.path.dirname(os.path.dirname(os.path.realpath(__file__)))


def load(path):
    try:
        e = json.load(open(path))
    except Exception:
        return None
    c = e["coverage"]
    return c["evaluations"], c["distinct_nontrivial"], e.get("wall_s"), c.get("known_finding_hits", 0)


print("| check | quick: evaluations | distinct non-trivial | wall | thorough: evaluations | distinct non-trivial | wall |")
print("|---|---|---|---|---|---|---|")
for k in range(1, 29):
    pid = "C%02d" % k
    q = load(os.path.join(HERE, "evidence", pid + ".json"))
    t = load(os.path.join(HERE, "thorough", "evidence", pid + ".json"))
    f = lambda r: "| %s | %s | %s " % (format(r[0], ","), format(r[1], ","), "%.0f s" % r[2] if r[2] < 100 else "%.1f min" % (r[2] / 60.0)) if r else "| - | - | - "
    print("| %s %s%s|" % (pid, f(q), f(t)))
