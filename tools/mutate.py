#!/venv/bin/python
"""Sensitivity helper: apply a textual mutant to a scratch copy of /repo and run checks against it.

usage: mutate.py <relative file> <old> <new> <check id>[,<check id>...] [--count N] [--tier quick]
Exit status 0 iff every listed check exits 1 (mutant caught). The scratch copy is removed afterwards.
Also accepts --patch <diff file> instead of file/old/new.
"""
import argparse, os, shutil, subprocess, sys, tempfile

ap = argparse.ArgumentParser()
ap.add_argument("file")
ap.add_argument("old")
ap.add_argument("new")
ap.add_argument("checks")
ap.add_argument("--count", type=int, default=1, help="expected number of occurrences of <old>")
ap.add_argument("--tier", default="quick")
ap.add_argument("--seed", default="1")
a = ap.parse_args()
d = tempfile.mkdtemp(prefix="mut-", dir="/tmp")
try:
    for sub in ("vc2_conformance", "tests", "docs"):
        shutil.copytree(os.path.join("/repo", sub), os.path.join(d, sub), ignore=shutil.ignore_patterns("__pycache__"))
    if a.file == "--patch":
        subprocess.check_call(["patch", "-p1", "-i", a.old], cwd=d)
    else:
        p = os.path.join(d, a.file)
        s = open(p).read()
        if s.count(a.old) != a.count:
            print("MUTANT NOT APPLIED: %d occurrences of old text (expected %d)" % (s.count(a.old), a.count))
            sys.exit(3)
        open(p, "w").write(s.replace(a.old, a.new))
    ok = True
    for c in a.checks.split(","):
        env = dict(os.environ, VPBT_REPO=d, VERIF_SEED=a.seed, VPBT_OUT=d)
        r = subprocess.run(["/verif/check", c, "--tier", a.tier], env=env, cwd="/verif", capture_output=True, text=True)
        lines = [l for l in r.stdout.splitlines() if l.startswith("VIOLATION") or l.startswith("  bucket")]
        print("%s exit=%d %s" % (c, r.returncode, "CAUGHT" if r.returncode == 1 else "MISSED"))
        for l in lines[:4]:
            print("   ", l[:220])
        if r.returncode == 2:
            print(r.stderr[-1500:])
        ok = ok and r.returncode == 1
    sys.exit(0 if ok else 1)
finally:
    shutil.rmtree(d, ignore_errors=True)
