SH = "vc2_conformance/encoder/sequence_header.py"
PI = "vc2_conformance/encoder/pictures.py"
SQ = "vc2_conformance/encoder/sequence.py"
CF = "vc2_conformance/codec_features.py"
MUTANTS = [
 ("etp_flag_prefers_true", [(PI, '    usable_flags = [True] if required else [False, True]', '    usable_flags = [True] if required else [True, False]')]),
 ("false_branch_ignores_level", [(SH, '        and False in level_constraints_dict[flag_key]\n    ):\n        yield dict_type({flag_key: False})', '    ):\n        yield dict_type({flag_key: False})')]),
 ("sequence_drops_level_regex", [(SQ, '            LEVEL_SEQUENCE_RESTRICTIONS[\n                codec_features["level"]\n            ].sequence_restriction_regex,\n', '')]),
 ("trivial_drops_same_dimensions", [(CF, '    constrained_values["slices_have_same_dimensions"] = slices_have_same_dimensions(\n        state\n    )\n', '')]),
 ("etp_flag_ignores_column", [(PI, '        LEVEL_CONSTRAINTS, flag_name, constrained_values\n', '        LEVEL_CONSTRAINTS, flag_name, {}\n')]),
 ("explicit_ignores_index0", [(SH, '            presets is None or 0 in level_constraints_dict[preset_index_constraint_key]\n', '            True\n')]),
 ("explicit_ignores_value_cells", [(SH, '            video_parameters[vp_key] in level_constraints_dict[vp_key]\n            for vp_key, dt_key in parameters\n', '            True\n            for vp_key, dt_key in parameters\n')]),
 ("color_spec_preset_ignores_index_cell", [(SH, '            and index in level_constraints_dict["color_spec_index"]\n', '')]),
 ("trivial_custom_quant_matrix_const", [(CF, '    constrained_values["custom_quant_matrix"] = (\n        codec_features["quantization_matrix"] is not None\n    )', '    constrained_values["custom_quant_matrix"] = False')]),
 ("base_format_ignores_level", [(SH, '            allowed_values_for(\n                LEVEL_CONSTRAINTS,\n                "base_video_format",\n                constrained_values,\n                LEVEL_CONSTRAINT_ANY_VALUES["base_video_format"],\n            ).iter_values()', '            LEVEL_CONSTRAINT_ANY_VALUES["base_video_format"].iter_values()')]),
]
MUTANTS.append(("base_format_ignores_level_both", [
  (SH, '            allowed_values_for(\n                LEVEL_CONSTRAINTS,\n                "base_video_format",\n                constrained_values,\n                LEVEL_CONSTRAINT_ANY_VALUES["base_video_format"],\n            ).iter_values()', '            LEVEL_CONSTRAINT_ANY_VALUES["base_video_format"].iter_values()'),
  (SH, '            dict(constrained_values, base_video_format=base_video_format),\n', '            dict(constrained_values),\n')]))
MUTANTS.append(("trivial_drops_wavelet_index", [(CF, '        "wavelet_index",\n        "dwt_depth",\n        "slices_x",', '        "dwt_depth",\n        "slices_x",')]))
MUTANTS.append(("trivial_ld_slice_bytes_unreduced", [(CF, '        constrained_values["slice_bytes_numerator"] = slice_bytes.numerator\n        constrained_values["slice_bytes_denominator"] = slice_bytes.denominator',
   '        constrained_values["slice_bytes_numerator"] = codec_features["picture_bytes"] or 0\n        constrained_values["slice_bytes_denominator"] = num_slices')]))
