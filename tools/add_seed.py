#!/venv/bin/python
"""Store a seeded change delivered by a sub-agent: add_seed.py TAG "needs text" [CHECK ...]
copies /tmp/seed-TAG/{patch.diff,demo.py,notes.txt} to seeded/TAG/, writes meta.json, removes the agent's scratch
worktree /tmp/wt-TAG and its scratch directory, then runs tools/seeded.py TAG."""
import json
import os
import shutil
import subprocess
import sys

HERE = os.path.dirname(os.path.dirname(os.path.realpath(__file__)))
tag, needs = sys.argv[1], sys.argv[2]
checks = sys.argv[3:] or [tag[:3]]
src = "/tmp/seed-" + tag
dst = os.path.join(HERE, "seeded", tag)
os.makedirs(dst, exist_ok=True)
for n in ("patch.diff", "demo.py", "notes.txt"):
    if os.path.exists(os.path.join(src, n)):
        shutil.copy(os.path.join(src, n), dst)
json.dump({"property": tag[:3], "needs": needs, "checks": checks,
           "source": "independent sub-agent given only the property text and a scratch worktree",
           "verified": "demo passes on the unmodified tree and fails with the patch (tools/seeded.py); repository suite: no added failures (agent's notes.txt)"},
          open(os.path.join(dst, "meta.json"), "w"), indent=1)
subprocess.call(["git", "-C", "/repo", "worktree", "remove", "--force", "/tmp/wt-" + tag])
shutil.rmtree(src, ignore_errors=True)
sys.exit(subprocess.call([os.path.join(HERE, "tools", "seeded.py"), tag]))
