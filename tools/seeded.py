#!/venv/bin/python
"""Run the checks against the seeded changes kept under /verif/seeded/<name>/ (patch.diff, demo.py, meta.json).

For each seed: scratch copy of /repo -> demo must pass; apply patch -> demo must fail; the checks named in
meta.json["checks"] are run against the patched copy (VPBT_REPO) and must exit 1 with a VIOLATION line.
Equivalent to `git -C /repo apply patch.diff; ./check ...; git -C /repo checkout -- .` but leaves /repo untouched
so that other runs are not disturbed. usage: seeded.py [name ...] [--tier quick] [--seed N] [--no-demo]
"""
import argparse
import json
import os
import shutil
import signal
import subprocess
import sys
import tempfile

HERE = os.path.dirname(os.path.dirname(os.path.realpath(__file__)))


def run(cmd, env=None, cwd=None, timeout=3600):
    pr = subprocess.Popen(cmd, env=env, cwd=cwd, stdout=subprocess.PIPE, stderr=subprocess.STDOUT, text=True, start_new_session=True)
    try:
        out, _ = pr.communicate(timeout=timeout)
    except subprocess.TimeoutExpired:
        os.killpg(pr.pid, signal.SIGKILL)
        out, _ = pr.communicate()
        return -9, out
    return pr.returncode, out


def main():
    ap = argparse.ArgumentParser()
    ap.add_argument("names", nargs="*")
    ap.add_argument("--tier", default="quick")
    ap.add_argument("--seed", default="1")
    ap.add_argument("--no-demo", action="store_true")
    ap.add_argument("--procs", default="8")
    a = ap.parse_args()
    root = os.path.join(HERE, "seeded")
    names = a.names or sorted(n for n in os.listdir(root) if os.path.isdir(os.path.join(root, n)))
    bad = 0
    for name in names:
        sd = os.path.join(root, name)
        meta = json.load(open(os.path.join(sd, "meta.json"))) if os.path.exists(os.path.join(sd, "meta.json")) else {}
        checks = meta.get("checks") or [meta.get("property", name[:3])]
        d = tempfile.mkdtemp(prefix="seed-", dir="/tmp")
        try:
            for sub in ("vc2_conformance", "tests", "docs"):
                shutil.copytree(os.path.join("/repo", sub), os.path.join(d, sub), ignore=shutil.ignore_patterns("__pycache__"))
            env = dict(os.environ, PYTHONPATH=d, PYTHONDONTWRITEBYTECODE="1")
            demo = os.path.join(sd, "demo.py")
            line = [name]
            if not a.no_demo and os.path.exists(demo):
                rc, out = run(["/venv/bin/python", demo], env=env, cwd=d, timeout=900)
                line.append("demo(unmodified)=%s" % ("pass" if rc == 0 else "FAIL rc=%d" % rc))
                bad += rc != 0
            rc, out = run(["patch", "-p1", "-s", "-i", os.path.join(sd, "patch.diff")], cwd=d)
            if rc != 0:
                print(name, "PATCH DOES NOT APPLY:", out[-300:])
                bad += 1
                continue
            if not a.no_demo and os.path.exists(demo):
                rc, out = run(["/venv/bin/python", demo], env=env, cwd=d, timeout=900)
                line.append("demo(patched)=%s" % ("fails as intended" if rc != 0 else "PASSES (seed ineffective)"))
                bad += rc == 0
            for c in checks:
                env2 = dict(os.environ, VPBT_REPO=d, VPBT_OUT=d, VERIF_SEED=a.seed, VPBT_SHARD_TIMEOUT="1500")
                rc, out = run([os.path.join(HERE, "check"), c, "--tier", a.tier, "--procs", a.procs], env=env2, cwd=HERE)
                buckets = [l.strip()[:140] for l in out.splitlines() if l.startswith("  bucket")]
                line.append("%s=%s" % (c, {1: "caught", 0: "MISSED", 2: "HARNESS-ERROR", -9: "TIMEOUT"}.get(rc, "rc%d" % rc)))
                if buckets:
                    line.append(buckets[0])
                bad += rc != 1
            print(" | ".join(line), flush=True)
        finally:
            shutil.rmtree(d, ignore_errors=True)
    return 1 if bad else 0


if __name__ == "__main__":
    sys.exit(main())
