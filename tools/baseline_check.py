#!/venv/bin/python
"""Run the repository's test-suite and compare with /root/.vp/BASELINE.json stable_pass.
usage: baseline_check.py [repo_dir]   (exit 0 iff every stable_pass test passed)"""
import json, subprocess, sys, tempfile, os, xml.etree.ElementTree as ET
repo = sys.argv[1] if len(sys.argv) > 1 else "/repo"
base = json.load(open("/root/.vp/BASELINE.json"))
out = tempfile.mktemp(suffix=".xml", dir="/tmp")
subprocess.call(["/venv/bin/python", "-m", "pytest", "-q", "-p", "no:cacheprovider", "--timeout=900",
                 "--continue-on-collection-errors", "-n", "14", "--junitxml=" + out], cwd=repo,
                stdout=subprocess.DEVNULL, stderr=subprocess.DEVNULL)
passed = set()
for tc in ET.parse(out).getroot().iter("testcase"):
    if not any(c.tag in ("failure", "error", "skipped") for c in tc):
        passed.add("%s::%s" % (tc.get("classname"), tc.get("name")))
os.unlink(out)
want = set(base["stable_pass"])
def norm(s): return s
missing = sorted(w for w in want if w not in passed)
print("stable_pass: %d, passed now: %d, missing: %d" % (len(want), len(passed), len(missing)))
for m in missing[:40]: print("  MISSING", m)
sys.exit(1 if missing else 0)
